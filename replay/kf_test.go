package validate

// Replays of the known findings recorded in /verif/known_findings.json, run against the real code
// (injected with `go test -overlay`, nothing is written to /repo). Each test FAILS while the defect is present.

import (
	"encoding/json"
	"testing"

	"github.com/go-openapi/loads"
	"github.com/go-openapi/spec"
	"github.com/go-openapi/strfmt"
)

func TestKF_D4_max(t *testing.T) {
	// exact: -2 > -2.5, so a maximum of -2.5 is exceeded by int64(-2)
	if err := MaximumNativeType("p", "body", int64(-2), -2.5, false); err == nil {
		t.Fatalf("MaximumNativeType(int64(-2), max=-2.5) accepted: bound truncated to int64(-2)")
	}
}

func TestKF_D4_min(t *testing.T) {
	// exact: 2 < 2.5, so a minimum of 2.5 is violated by int64(2)
	if err := MinimumNativeType("p", "body", int64(2), 2.5, false); err == nil {
		t.Fatalf("MinimumNativeType(int64(2), min=2.5) accepted: bound truncated to int64(2)")
	}
}

func TestKF_D4_mult(t *testing.T) {
	// every integer is a multiple of 0.5
	if err := MultipleOfNativeType("p", "body", int64(3), 0.5); err != nil {
		t.Fatalf("MultipleOfNativeType(int64(3), 0.5) rejected: %v", err)
	}
}

func TestKF_D17_uintptr(t *testing.T) {
	if err := MaximumNativeType("p", "body", uintptr(5), 0, false); err == nil {
		t.Fatalf("MaximumNativeType(uintptr(5), max=0) accepted: uintptr falls into the non-numeric default branch")
	}
}

// ---- regression replays of repaired defects ("fixed" entries of known_findings.json): these PASS on the repaired tree.

func TestFixed_D1(t *testing.T) {
	var sch spec.Schema
	if err := json.Unmarshal([]byte(`{"additionalItems":{"type":"string"}}`), &sch); err != nil {
		t.Fatal(err)
	}
	// panicked before 0d4df5d (reflect: slice index out of range)
	_ = AgainstSchema(&sch, []interface{}{1.0}, strfmt.Default)
	var tuple spec.Schema
	if err := json.Unmarshal([]byte(`{"items":[{},{}],"additionalItems":{"type":"string"}}`), &tuple); err != nil {
		t.Fatal(err)
	}
	if err := AgainstSchema(&tuple, []interface{}{1.0, 1.0, "a", "b", 5.0}, strfmt.Default); err == nil {
		t.Fatalf("trailing additional item 5.0 (not a string) was not validated")
	}
}

func TestFixed_D5(t *testing.T) {
	raw := `{"swagger":"2.0","info":{"title":"t","version":"1"},"paths":{"/p":{"post":{"operationId":"op",
	  "parameters":[{"name":"a.a","in":"body","schema":{"type":"object","properties":{"x":{"type":"string","default":"d"}}}}],
	  "responses":{"200":{"description":"ok"}}}}}}`
	doc, err := loads.Analyzed(json.RawMessage(raw), "")
	if err != nil {
		t.Fatal(err)
	}
	// nil pointer dereference before 0b22061
	_ = Spec(doc, strfmt.Default)
}

// D8 (C11): a child validator redeems itself in its own deferred call; when its Validate panics, the parent's deferred
// redeemChildren still finds the child in its slot and redeems it a second time: the pool then holds the same object
// twice and hands it out to two borrowers.
type kfPanicRegistry struct{ strfmt.Registry }

func (r kfPanicRegistry) ContainsName(name string) bool { return name == "boom" || r.Registry.ContainsName(name) }
func (r kfPanicRegistry) Validates(name, data string) bool {
	if name == "boom" {
		panic("format checker panics")
	}
	return r.Registry.Validates(name, data)
}

func TestFixed_D8_double_redeem(t *testing.T) {
	var sch spec.Schema
	if err := json.Unmarshal([]byte(`{"type":"string","format":"boom"}`), &sch); err != nil {
		t.Fatal(err)
	}
	// drain what earlier tests left in the pool of format validators
	for i := 0; i < 64; i++ {
		_ = pools.poolOfFormatValidators.BorrowValidator()
	}
	func() {
		defer func() { _ = recover() }()
		_ = AgainstSchema(&sch, "x", kfPanicRegistry{strfmt.Default})
	}()
	seen := map[*formatValidator]bool{}
	for i := 0; i < 8; i++ {
		v := pools.poolOfFormatValidators.BorrowValidator()
		if seen[v] {
			t.Fatalf("the pool handed out the same *formatValidator twice after a recovered panic: it was redeemed twice")
		}
		seen[v] = true
	}
}

// D12 (C06): formatValidator.Validate asserts val.(string) without a check; a json.Number has reflect kind String,
// so the format validator applies to it and the assertion panics.
func TestFixed_D12_format_number(t *testing.T) {
	var sch spec.Schema
	if err := json.Unmarshal([]byte(`{"type":"string","format":"date"}`), &sch); err != nil {
		t.Fatal(err)
	}
	defer func() {
		if r := recover(); r != nil {
			t.Fatalf("AgainstSchema panicked on a json.Number instance: %v", r)
		}
	}()
	_ = AgainstSchema(&sch, json.Number("1"), strfmt.Default)
}

// D8 in the schemaPropsValidator helpers (not repaired): validateAnyOf / validateOneOf / validateAllOf / validateNot
// nil the child's entry only after the child's Validate has returned; when the child panics it has already redeemed
// itself, and the deferred redeemChildren of schemaPropsValidator.Validate redeems it a second time.
func TestFixed_D8_props_double_redeem(t *testing.T) {
	var sch spec.Schema
	if err := json.Unmarshal([]byte(`{"anyOf":[{"type":"string","format":"boom"}]}`), &sch); err != nil {
		t.Fatal(err)
	}
	for i := 0; i < 64; i++ {
		_ = pools.poolOfSchemaValidators.BorrowValidator()
	}
	func() {
		defer func() { _ = recover() }()
		_ = AgainstSchema(&sch, "x", kfPanicRegistry{strfmt.Default})
	}()
	seen := map[*SchemaValidator]bool{}
	for i := 0; i < 8; i++ {
		v := pools.poolOfSchemaValidators.BorrowValidator()
		if seen[v] {
			t.Fatalf("the pool handed out the same *SchemaValidator twice after a recovered panic inside anyOf: it was redeemed twice")
		}
		seen[v] = true
	}
}

// D9 (fixed): NewSpecValidator copied the package-level defaultOpts without taking defaultOptsMutex while
// SetContinueOnErrors writes it under that mutex. Run with `go test -race`: on the tree before the fix the race
// detector reports the unsynchronised read (spec.go, NewSpecValidator) against the write (options.go); after it, none.
func TestFixed_D9_defaultOpts_race(t *testing.T) {
	done := make(chan struct{})
	go func() {
		defer close(done)
		for i := 0; i < 2000; i++ {
			SetContinueOnErrors(i%2 == 0)
		}
	}()
	for i := 0; i < 2000; i++ {
		_ = NewSpecValidator(nil, nil)
	}
	<-done
	SetContinueOnErrors(false)
}
