package validate

// Replays of the known findings recorded in /verif/known_findings.json, run against the real code
// (injected with `go test -overlay`, nothing is written to /repo). Each test FAILS while the defect is present.

import (
	"testing"
)

func TestKF_D4_max(t *testing.T) {
	// exact: -2 > -2.5, so a maximum of -2.5 is exceeded by int64(-2)
	if err := MaximumNativeType("p", "body", int64(-2), -2.5, false); err == nil {
		t.Fatalf("MaximumNativeType(int64(-2), max=-2.5) accepted: bound truncated to int64(-2)")
	}
}

func TestKF_D4_min(t *testing.T) {
	// exact: 2 < 2.5, so a minimum of 2.5 is violated by int64(2)
	if err := MinimumNativeType("p", "body", int64(2), 2.5, false); err == nil {
		t.Fatalf("MinimumNativeType(int64(2), min=2.5) accepted: bound truncated to int64(2)")
	}
}

func TestKF_D4_mult(t *testing.T) {
	// every integer is a multiple of 0.5
	if err := MultipleOfNativeType("p", "body", int64(3), 0.5); err != nil {
		t.Fatalf("MultipleOfNativeType(int64(3), 0.5) rejected: %v", err)
	}
}

func TestKF_D17_uintptr(t *testing.T) {
	if err := MaximumNativeType("p", "body", uintptr(5), 0, false); err == nil {
		t.Fatalf("MaximumNativeType(uintptr(5), max=0) accepted: uintptr falls into the non-numeric default branch")
	}
}
