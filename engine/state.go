package main

import (
	"fmt"
	"os"
	"go/types"
	"sort"
	"strings"

	"golang.org/x/tools/go/ssa"
)

type deferRec struct {
	guard *Term
	instr *ssa.Defer
	fn    Value   // *Closure or nil (static callee)
	args  []Value // evaluated at registration
}

type State struct {
	heapsPrev map[string]*Term // transient: previous version of the heap being stored to
	pc     *Term
	heaps  map[string]*Term
	regs   map[ssa.Value]Value
	names  map[string]Value
	defers []deferRec
	clk    *Term
}

func (s *State) clone() *State {
	n := &State{pc: s.pc, clk: s.clk}
	n.heaps = make(map[string]*Term, len(s.heaps))
	for k, v := range s.heaps {
		n.heaps[k] = v
	}
	n.regs = make(map[ssa.Value]Value, len(s.regs))
	for k, v := range s.regs {
		n.regs[k] = v
	}
	n.names = make(map[string]Value, len(s.names))
	for k, v := range s.names {
		n.names[k] = v
	}
	n.defers = append([]deferRec(nil), s.defers...)
	return n
}

// heap returns the current version of the named heap array (creating the initial symbol lazily).
func (x *Exec) heap(st *State, name, sort string) *Term {
	if h, ok := st.heaps[name]; ok {
		return h
	}
	h := x.tt.Sym(name+"@0", sort)
	x.heapSorts[name] = sort
	// every state derived from entry shares the same initial symbol
	st.heaps[name] = h
	return h
}

// mergeStates merges states reaching the same point. conds are the states' own pcs.
func (x *Exec) mergeStates(sts []*State) *State {
	var live []*State
	for _, s := range sts {
		if s != nil && !isFalse(s.pc) {
			live = append(live, s)
		}
	}
	if len(live) == 0 {
		return nil
	}
	if len(live) == 1 {
		return live[0]
	}
	tt := x.tt
	res := live[0].clone()
	for _, s := range live[1:] {
		c := s.pc // choose s when s.pc holds (pcs are mutually exclusive along a path)
		// heaps
		keys := map[string]bool{}
		for k := range res.heaps {
			keys[k] = true
		}
		for k := range s.heaps {
			keys[k] = true
		}
		for k := range keys {
			a, ok1 := res.heaps[k]
			b, ok2 := s.heaps[k]
			if !ok1 {
				a = tt.Sym(k+"@0", x.heapSorts[k])
			}
			if !ok2 {
				b = tt.Sym(k+"@0", x.heapSorts[k])
			}
			res.heaps[k] = tt.Ite(c, b, a)
		}
		for k, a := range res.regs {
			b, ok := s.regs[k]
			if !ok {
				delete(res.regs, k)
				continue
			}
			if a != b {
				res.regs[k] = x.iteVal(c, b, a)
			}
		}
		for k, a := range res.names {
			b, ok := s.names[k]
			if !ok {
				delete(res.names, k)
				continue
			}
			if a != b {
				if sameShape(a, b) {
					res.names[k] = x.iteVal(c, b, a)
				} else {
					delete(res.names, k)
				}
			}
		}
		res.clk = tt.Ite(c, s.clk, res.clk)
		// defers
		res.defers = x.mergeDefers(res.defers, s.defers, res.pc, c)
		res.pc = x.orFactored(res.pc, s.pc)
	}
	return res
}

func conjunctsOf(t *Term) []*Term {
	if t.Kind == KApp && t.Op == "and" {
		return t.Args
	}
	return []*Term{t}
}

// orFactored: a || b with the conjuncts common to both pulled out (keeps dominating conditions visible as conjuncts).
func (x *Exec) orFactored(a, b *Term) *Term {
	tt := x.tt
	ca, cb := conjunctsOf(a), conjunctsOf(b)
	inB := map[int]bool{}
	for _, t := range cb {
		inB[t.id] = true
	}
	var common, ra, rb []*Term
	isCommon := map[int]bool{}
	for _, t := range ca {
		if inB[t.id] {
			common = append(common, t)
			isCommon[t.id] = true
		} else {
			ra = append(ra, t)
		}
	}
	for _, t := range cb {
		if !isCommon[t.id] {
			rb = append(rb, t)
		}
	}
	if len(common) == 0 {
		return tt.Or(a, b)
	}
	return tt.And(append(common, tt.Or(tt.And(ra...), tt.And(rb...)))...)
}

func sameShape(a, b Value) bool {
	switch av := a.(type) {
	case *Term:
		bt, ok := b.(*Term)
		return ok && bt.Sort == av.Sort
	case *Agg:
		bg, ok := b.(*Agg)
		if !ok || len(bg.Elems) != len(av.Elems) {
			return false
		}
		for i := range av.Elems {
			if !sameShape(av.Elems[i], bg.Elems[i]) {
				return false
			}
		}
		return true
	case *Closure:
		bc, ok := b.(*Closure)
		return ok && bc.Fn == av.Fn
	}
	return false
}

func (x *Exec) mergeDefers(a, b []deferRec, ca, cb *Term) []deferRec {
	tt := x.tt
	var out []deferRec
	n := len(a)
	if len(b) > n {
		n = len(b)
	}
	for i := 0; i < n; i++ {
		switch {
		case i < len(a) && i < len(b) && a[i].instr == b[i].instr:
			d := a[i]
			d.guard = tt.Ite(cb, b[i].guard, a[i].guard)
			if a[i].fn != nil && b[i].fn != nil {
				d.fn = x.iteVal(cb, b[i].fn, a[i].fn)
			}
			for j := range d.args {
				d.args = append([]Value(nil), d.args...)
				d.args[j] = x.iteVal(cb, b[i].args[j], a[i].args[j])
			}
			out = append(out, d)
		default:
			if i < len(a) {
				d := a[i]
				d.guard = tt.And(tt.Not(cb), d.guard)
				out = append(out, d)
			}
			if i < len(b) {
				d := b[i]
				d.guard = tt.And(cb, d.guard)
				out = append(out, d)
			}
		}
	}
	return out
}

// ---------- addresses

func structOf(t types.Type) (*types.Struct, bool) {
	s, ok := t.Underlying().(*types.Struct)
	return s, ok
}

func heapFieldName(st types.Type, field string) string {
	return "H$" + typeName(st) + "$" + field
}

// fieldAddr builds the address term of field i of the struct at base (type T).
func (x *Exec) fieldAddr(base *Term, T types.Type, i int) *Term {
	s, _ := structOf(T)
	name := "fa$" + typeName(T) + "$" + s.Field(i).Name()
	if _, ok := x.faFieldType[name]; !ok {
		x.faFieldType[name] = typeName(s.Field(i).Type())
	}
	t := x.tt.UF(name, "Int", base)
	x.noteAddr(t)
	return t
}

func (x *Exec) elemAddr(arr, idx *Term) *Term {
	t := x.tt.UF("ea$", "Int", arr, x.toMathInt(idx))
	x.noteAddr(t)
	return t
}

// toMathInt converts an index term to sort Int for address computations (identity in math mode).
func (x *Exec) toMathInt(i *Term) *Term {
	if i.Sort == "Int" {
		return i
	}
	if v, w, ok := bvVal(i); ok {
		return x.tt.BigLit(toSigned(v, w))
	}
	// signed interpretation
	return x.tt.App("sbv2int$", "Int", i)
}

func (x *Exec) noteAddr(t *Term) {
	if x.addrSeen[t.id] {
		return
	}
	x.addrSeen[t.id] = true
	tt := x.tt
	// interior addresses: non-nil, share birth with their base, injective
	base := t.Args[0]
	x.addPermFact(tt.Gt(t, tt.IntLit(0)))
	x.addPermFact(tt.Eq(tt.UF("birth$", "Int", t), tt.UF("birth$", "Int", base)))
	x.addPermFact(tt.Not(tt.UF("isbase$", "Bool", t)))
	if t.Op == "ea$" {
		x.addPermFact(tt.Eq(tt.UF("ea_arr$", "Int", t), base))
		x.addPermFact(tt.Eq(tt.UF("ea_idx$", "Int", t), t.Args[1]))
	} else {
		tt.UF("inv$"+t.Op, "Int", tt.Fresh("u", "Int")) // registers the signature
		// stated with the raw application: UF() itself rewrites inv(fa(x)) to x, which the solver must be told too
		x.addPermFact(tt.Eq(tt.App("inv$"+t.Op, "Int", t), base))
	}
}

// decompose pointer term into shape
type ptrShape int

const (
	shPlain ptrShape = iota
	shField
	shElem
)

func shapeOf(p *Term) ptrShape {
	if p.Kind == KApp {
		if p.Op == "ea$" {
			return shElem
		}
		if strings.HasPrefix(p.Op, "fa$") {
			return shField
		}
	}
	return shPlain
}

// load reads a value of Go type T through pointer p.
func (x *Exec) load(st *State, p *Term, T types.Type) Value {
	if p.Kind == KApp && p.Op == "ite" {
		a := x.load(st, p.Args[1], T)
		b := x.load(st, p.Args[2], T)
		return x.iteVal(p.Args[0], a, b)
	}
	if x.isAggType(T) {
		switch u := T.Underlying().(type) {
		case *types.Struct:
			a := &Agg{T: T}
			for i := 0; i < u.NumFields(); i++ {
				a.Elems = append(a.Elems, x.load(st, x.fieldAddr(p, T, i), u.Field(i).Type()))
			}
			return a
		case *types.Array:
			a := &Agg{T: T}
			for i := int64(0); i < u.Len(); i++ {
				a.Elems = append(a.Elems, x.load(st, x.elemAddr(p, x.tt.IntLit(i)), u.Elem()))
			}
			return a
		}
		panic("load agg " + T.String())
	}
	srt := x.sortOf(T)
	var v *Term
	switch shapeOf(p) {
	case shField:
		h := x.heap(st, "H$"+p.Op[3:], arraySort("Int", srt))
		v = x.tt.Select(h, p.Args[0])
		x.assumeTypeInv(st, p)
	case shElem:
		h := x.heap(st, "A$"+typeName(T), arraySort("Int", arraySort("Int", srt)))
		v = x.tt.Select(x.tt.Select(h, p.Args[0]), p.Args[1])
	default:
		h := x.heap(st, "M$"+typeName(T), arraySort("Int", srt))
		v = x.tt.Select(h, p)
	}
	x.assumeLoadedFrom(st, v, T)
	x.noteLoadedFrom(st, p, v, T)
	return v
}

// assumeLoadedFrom: like assumeLoaded, but a value read from the entry version of a heap existed at entry.
func (x *Exec) assumeLoadedFrom(st *State, v *Term, T types.Type) {
	if v.Kind == KApp && v.Op == "select" {
		a := v.Args[0]
		for a.Kind == KApp && a.Op == "select" {
			a = a.Args[0]
		}
		if a.Kind == KSym && strings.HasSuffix(a.Op, "@0") {
			switch T.Underlying().(type) {
			case *types.Pointer, *types.Map:
				if !v.hasBound {
					x.addFactRaw(x.tt.Lt(x.tt.UF("birth$", "Int", v), x.tt.Sym("clk@0", "Int")))
				}
			}
		}
	}
	x.assumeLoaded(st, v, T)
}

// noteLoadedFrom: bookkeeping for the ownership forest (children of validator objects, arrays they own).
func (x *Exec) noteLoadedFrom(st *State, p, v *Term, T types.Type) {
	if len(x.prog.Cons.ValidatorTypes) == 0 || v.hasBound || p.hasBound {
		return
	}
	owner := x.validatorOwnerOfAddr(st, p)
	if owner == nil {
		return
	}
	switch {
	case x.isValidatorPtrType(T):
		x.noteChildLoad(owner, v)
	case v.Sort == "Val":
		x.valOrigin[v.id] = owner
	case v.Sort == "Slice":
		x.arrOwnerHint[x.sArr(v).id] = owner
	}
}

// assumeLoaded: typing facts for values read from the heap.
func (x *Exec) assumeLoaded(st *State, v *Term, T types.Type) {
	if v.Kind == KLit {
		return
	}
	if x.loadedSeen[v.id] {
		return
	}
	x.loadedSeen[v.id] = true
	x.assumeTyped(v, T)
	switch T.Underlying().(type) {
	case *types.Pointer, *types.Map:
		// pointers found in the heap refer to existing objects
		x.addFactRaw(x.tt.Lt(x.tt.UF("birth$", "Int", v), st.clk))
	case *types.Slice:
		x.addFactRaw(x.tt.Lt(x.tt.UF("birth$", "Int", x.sArr(v)), st.clk))
		if len(x.prog.Cons.ValidatorTypes) > 0 {
			if pt, ok := T.Underlying().(*types.Slice).Elem().Underlying().(*types.Pointer); ok && x.isMutableTypeName(typeName(pt.Elem())) && !v.hasBound {
				// heap typing: the pointers held by a slice found in the heap refer to objects that exist
				en := "A$" + typeName(T.Underlying().(*types.Slice).Elem())
				es := arraySort("Int", arraySort("Int", "Int"))
				inner := x.tt.Select(x.heap(st, en, es), x.sArr(v))
				k := x.tt.Bound("k", "Int")
				el := x.tt.Select(inner, k)
				x.addFactRaw(x.tt.Forall([]*Term{k}, x.tt.Implies(x.tt.And(x.tt.Le(x.tt.IntLit(0), k), x.tt.Lt(k, x.toMathInt(x.sLen(v)))),
					x.tt.Or(x.tt.Eq(el, x.tt.IntLit(0)), x.tt.Lt(x.tt.UF("birth$", "Int", el), st.clk))), []*Term{el}))
			}
			x.arrayEmbedders()
			if et := T.Underlying().(*types.Slice).Elem(); !x.arrEmbElem[typeName(et)] {
				// no struct of the package embeds an array of this element type: the backing array is an allocation of its own
				x.addFactRaw(x.tt.Or(x.tt.Eq(x.sArr(v), x.tt.IntLit(0)), x.tt.UF("isbase$", "Bool", x.sArr(v))))
			}
		}
	case *types.Interface:
		if v.Sort == "Val" {
			x.assumeValExisting(st, v)
		}
	}
}

func (x *Exec) store(st *State, p *Term, T types.Type, val Value) {
	if p.Kind == KApp && p.Op == "ite" {
		// split
		s1 := st.clone()
		s1.pc = x.tt.And(st.pc, p.Args[0])
		savedPC := x.curPC
		x.curPC = s1.pc
		x.store(s1, p.Args[1], T, val)
		s2 := st.clone()
		s2.pc = x.tt.And(st.pc, x.tt.Not(p.Args[0]))
		x.curPC = s2.pc
		x.store(s2, p.Args[2], T, val)
		x.curPC = savedPC
		// merge heaps only
		for k := range s1.heaps {
			a := s1.heaps[k]
			b, ok := s2.heaps[k]
			if !ok {
				b = x.heap(s2, k, a.Sort)
			}
			st.heaps[k] = x.tt.Ite(p.Args[0], a, b)
		}
		for k := range s2.heaps {
			if _, ok := s1.heaps[k]; !ok {
				st.heaps[k] = x.tt.Ite(p.Args[0], x.heap(s1, k, s2.heaps[k].Sort), s2.heaps[k])
			}
		}
		return
	}
	if x.isAggType(T) {
		ag, ok := val.(*Agg)
		if !ok {
			panic(fmt.Sprintf("store agg: value %T for type %s", val, T))
		}
		switch u := T.Underlying().(type) {
		case *types.Struct:
			for i := 0; i < u.NumFields(); i++ {
				x.store(st, x.fieldAddr(p, T, i), u.Field(i).Type(), ag.Elems[i])
			}
		case *types.Array:
			for i := int64(0); i < u.Len(); i++ {
				x.store(st, x.elemAddr(p, x.tt.IntLit(i)), u.Elem(), ag.Elems[i])
			}
		}
		return
	}
	srt := x.sortOf(T)
	v, ok := val.(*Term)
	if !ok {
		// closures or other engine-level values stored into memory: lose them
		v = x.tt.Fresh("opaque", srt)
		x.note("stored non-scalar engine value into memory (abstracted)")
	}
	if v.Sort != srt {
		panic(fmt.Sprintf("store: sort mismatch %s vs %s for type %s", v.Sort, srt, T))
	}
	switch shapeOf(p) {
	case shField:
		name := "H$" + p.Op[3:]
		h := x.heap(st, name, arraySort("Int", srt))
		st.heaps[name] = x.tt.Store(h, p.Args[0], v)
		x.recordWrite(name, p.Args[0])
		x.noteInvStore(p)
		st.heapsPrev = map[string]*Term{name: h}
		x.noteOwnerStore(st, p, v, T)
		st.heapsPrev = nil
	case shElem:
		name := "A$" + typeName(T)
		h := x.heap(st, name, arraySort("Int", arraySort("Int", srt)))
		inner := x.tt.Select(h, p.Args[0])
		st.heaps[name] = x.tt.Store(h, p.Args[0], x.tt.Store(inner, p.Args[1], v))
		x.recordWrite(name, p.Args[0])
	default:
		name := "M$" + typeName(T)
		h := x.heap(st, name, arraySort("Int", srt))
		st.heaps[name] = x.tt.Store(h, p, v)
		x.recordWrite(name, p)
		x.note("store through scalar pointer of unknown provenance (M$ heap)")
	}
}

// recordWrite logs heap writes (used for loop havoc computation).
func (x *Exec) recordWrite(heap string, idx *Term) {
	for _, r := range x.recorders {
		r.writes = append(r.writes, writeRec{heap, idx})
	}
	if idx != nil && idx == x.tt.IntLit(-1) {
		return // guarded modifies target whose guard is false: nothing is written
	}
	if idx != nil && idx.Kind == KApp && idx.Op == "ite" && idx.Args[2] == x.tt.IntLit(-1) {
		// guarded modifies target (when(cond, lv)): the write happens only under cond
		saved := x.curPC
		if saved == nil {
			x.curPC = idx.Args[0]
		} else {
			x.curPC = x.tt.And(saved, idx.Args[0])
		}
		x.checkWrite(heap, idx.Args[1])
		x.curPC = saved
		return
	}
	x.checkWrite(heap, idx)
}

type writeRec struct {
	heap string
	idx  *Term // nil = whole heap
}

type writeRecorder struct {
	writes []writeRec
}

// havocHeap replaces a heap by a fresh array.
func (x *Exec) havocHeap(st *State, name string) {
	srt, ok := x.heapSorts[name]
	if !ok {
		if h, ok2 := st.heaps[name]; ok2 {
			srt = h.Sort
		} else {
			return
		}
	}
	st.heaps[name] = x.tt.Fresh(name+"@h", srt)
	if d := os.Getenv("GOVC_DEBUG_HAVOC"); d != "" && strings.Contains(name, d) {
		fmt.Fprintf(os.Stderr, "debug: havoc %s -> %s at %s\n", name, st.heaps[name].String(), x.posStr(x.curPos))
	}
	x.recordWrite(name, nil)
}

func (x *Exec) havocAll(st *State) {
	names := x.allHeapNames(st)
	for _, n := range names {
		if strings.HasPrefix(n, "L$") { // non-escaping locals are never havocked by calls
			continue
		}
		x.havocHeap(st, n)
	}
	st.clk = x.advanceClk(st)
	x.havocAllCount++
	x.havocEvents = append(x.havocEvents, nil)
}

// havocAllKeeping: havoc of every heap except those selected by keep (and non-escaping locals).
func (x *Exec) havocAllKeeping(st *State, keep func(string) bool) {
	for _, n := range x.allHeapNames(st) {
		if strings.HasPrefix(n, "L$") || keep(n) {
			continue
		}
		x.havocHeap(st, n)
	}
	st.clk = x.advanceClk(st)
	x.havocEvents = append(x.havocEvents, keep)
}

// preservesKeep: the heaps a contract with `preserves T…` leaves untouched.
func preservesKeep(con *Contract) func(string) bool {
	return func(n string) bool {
		for _, T := range con.Preserves {
			if strings.HasPrefix(n, "H$"+T+"$") {
				return true
			}
		}
		return false
	}
}

// ownStructFieldHeap: H$T$f with T a named struct type of the package under verification.
func ownStructFieldHeap(n string) bool {
	if !strings.HasPrefix(n, "H$") {
		return false
	}
	rest := n[2:]
	i := strings.LastIndex(rest, "$")
	if i <= 0 || i+1 >= len(rest) {
		return false
	}
	return !strings.ContainsAny(rest[:i], ".{[*( ")
}

// ownUnexportedFieldHeap: H$T$f with T a named struct type of the package under verification and f unexported.
func ownUnexportedFieldHeap(n string) bool {
	if !strings.HasPrefix(n, "H$") {
		return false
	}
	rest := n[2:]
	i := strings.LastIndex(rest, "$")
	if i <= 0 || i+1 >= len(rest) {
		return false
	}
	T, f := rest[:i], rest[i+1:]
	if strings.ContainsAny(T, ".{[*( ") {
		return false
	}
	return f[0] >= 'a' && f[0] <= 'z'
}


func (x *Exec) allHeapNames(st *State) []string {
	m := map[string]bool{}
	for k := range st.heaps {
		m[k] = true
	}
	for k := range x.heapSorts {
		m[k] = true
	}
	var out []string
	for k := range m {
		out = append(out, k)
	}
	sort.Strings(out)
	return out
}

func (x *Exec) advanceClk(st *State) *Term {
	n := x.tt.Fresh("clk", "Int")
	x.addFactRaw(x.tt.Ge(n, st.clk))
	return n
}

// alloc returns a fresh object reference.
func (x *Exec) alloc(st *State, what string) *Term {
	tt := x.tt
	r := tt.Fresh("new$"+what, "Int")
	x.addFactRaw(tt.Gt(r, tt.IntLit(0)))
	x.addFactRaw(tt.Eq(tt.UF("birth$", "Int", r), st.clk))
	x.addFactRaw(tt.UF("isbase$", "Bool", r))
	st.clk = tt.Add(st.clk, tt.IntLit(1))
	// a fresh object is neither in a pool nor published
	for _, g := range []string{"G$redeemed", "G$published"} {
		_, used := x.heapSorts[g]
		if g == "G$redeemed" && len(x.prog.Cons.ValidatorTypes) > 0 {
			used = true
		}
		if used {
			h := x.heap(st, g, arraySort("Int", "Bool"))
			st.heaps[g] = tt.Store(h, r, tt.False())
		}
	}
	return r
}

// initObject stores zero values into a freshly allocated object of type T at r.
func (x *Exec) initObject(st *State, r *Term, T types.Type) {
	x.store(st, r, T, x.zero(T))
}

// ---------- type invariants

// typeOfFieldAddr: struct type name of a fa$T$f address term.
func faTypeName(p *Term) string {
	rest := p.Op[3:]
	if i := strings.LastIndex(rest, "$"); i >= 0 {
		return rest[:i]
	}
	return rest
}

// isOwnObject: objects allocated or borrowed by the function under verification are exempt from the
// assumption that their type invariant holds (they may be under construction).
func (x *Exec) isOwnObject(base *Term) bool {
	if base.Kind == KSym && strings.HasPrefix(base.Op, "new$") {
		return true
	}
	return x.ownObjs[base.id]
}

// assumeTypeInv: reading a field of an object of a type with a declared invariant lets us assume the invariant
// (visible-state semantics: it holds for every object not under construction by the current function).
func (x *Exec) assumeTypeInv(st *State, fieldPtr *Term) {
	tn := faTypeName(fieldPtr)
	invs := x.prog.Cons.TypeInvs[tn]
	if len(invs) == 0 || x.inTypeInv > 0 {
		return
	}
	base := fieldPtr.Args[0]
	if base.hasBound || x.isOwnObject(base) {
		return
	}
	// one assumption per (object, heap versions of that type's fields) is enough; key on object + state identity of the field heap
	hname := "H$" + fieldPtr.Op[3:]
	key := fmt.Sprintf("%d|%d|%s", base.id, st.heaps[hname].id, tn)
	if x.invAssumed[key] {
		return
	}
	x.invAssumed[key] = true
	T := x.lookupType(tn)
	x.inTypeInv++
	x.inSpec++
	for _, c := range invs {
		env := &Env{x: x, st: st, old: st, vars: map[string]Value{"self": base}, vtypes: map[string]types.Type{"self": types.NewPointer(T)}}
		t := asTerm(env.eval(c.Expr).V)
		x.addFact(x.tt.Implies(x.tt.Not(x.tt.Eq(base, x.tt.IntLit(0))), t))
	}
	x.inSpec--
	x.inTypeInv--
}

// noteInvStore: remember objects whose invariant-relevant type was written, to re-establish the invariant at exit.
func (x *Exec) noteInvStore(fieldPtr *Term) {
	tn := faTypeName(fieldPtr)
	if len(x.prog.Cons.TypeInvs[tn]) == 0 || x.quiet {
		return
	}
	base := fieldPtr.Args[0]
	if base.hasBound {
		return
	}
	k := fmt.Sprintf("%d|%s", base.id, tn)
	cond := x.curPC
	if cond == nil {
		cond = x.tt.True()
	}
	if o, ok := x.invWritten[k]; !ok {
		x.invWritten[k] = invObj{base, tn, cond}
		x.invOrder = append(x.invOrder, k)
	} else {
		o.cond = x.tt.Or(o.cond, cond)
		x.invWritten[k] = o
	}
}

type invObj struct {
	base *Term
	tn   string
	cond *Term // path condition under which the object was written
}

// checkTypeInvs: at function exit every object whose fields were written satisfies its type invariant.
func (x *Exec) checkTypeInvs(fr *Frame, st *State) {
	for _, k := range x.invOrder {
		o := x.invWritten[k]
		T := x.lookupType(o.tn)
		x.inTypeInv++
		for i, c := range x.prog.Cons.TypeInvs[o.tn] {
			env := &Env{x: x, st: st, old: st, vars: map[string]Value{"self": o.base}, vtypes: map[string]types.Type{"self": types.NewPointer(T)}}
			g := x.evalBool(env, c.Expr)
			// objects handed back to a pool need not satisfy their invariant any more
			red := x.tt.Select(x.heap(st, "G$redeemed", arraySort("Int", "Bool")), o.base)
			x.oblige(fr, st, "struct-inv", fmt.Sprintf("%s:%d", o.tn, i+1), x.sweepTagsOr(fr), x.tt.Implies(o.cond, x.tt.Or(red, x.tt.Eq(o.base, x.tt.IntLit(0)), g)), "type invariant of "+o.tn+": "+c.Text)
		}
		x.inTypeInv--
	}
}

func (x *Exec) sweepTagsOr(fr *Frame) []string {
	if len(x.sweepTags) > 0 {
		return x.sweepTags
	}
	if fr.con != nil {
		return fr.con.frameTags()
	}
	return nil
}

// noteOwnerStore: storing a slice or map into a field of an object of a mutable type makes that object the owner
// of the backing array / map (ghost G$owner).
func (x *Exec) noteOwnerStore(st *State, fieldPtr, v *Term, T types.Type) {
	if len(x.prog.Cons.ValidatorTypes) == 0 || !x.prog.Cons.OwnedFields[strings.Replace(fieldPtr.Op[3:], "$", ".", 1)] {
		return
	}
	var ref *Term
	switch T.Underlying().(type) {
	case *types.Slice:
		ref = x.sArr(v)
	case *types.Map:
		ref = v
	default:
		return
	}
	tt := x.tt
	if v, ok := intVal(ref); ok && v.Sign() == 0 {
		return // nil slice / map: nothing to own
	}
	h := x.heap(st, "G$owner", arraySort("Int", "Int"))
	// re-slicing or appending in place keeps the array: ownership is only taken of a different array
	prevName := "H$" + fieldPtr.Op[3:]
	if ph, ok := st.heapsPrev[prevName]; ok {
		var prevRef *Term
		pv := tt.Select(ph, fieldPtr.Args[0])
		if pv.Sort == "Slice" {
			prevRef = x.sArr(pv)
		} else {
			prevRef = pv
		}
		if prevRef == ref {
			return
		}
		nv := tt.Ite(tt.Or(tt.Eq(ref, tt.IntLit(0)), tt.Eq(ref, prevRef)), tt.Select(h, ref), x.baseObject(fieldPtr.Args[0]))
		st.heaps["G$owner"] = tt.Store(h, ref, nv)
		x.recordWrite("G$owner", ref)
		return
	}
	// only base arrays (not nil) get an owner
	nv := tt.Ite(tt.Eq(ref, tt.IntLit(0)), tt.Select(h, ref), x.baseObject(fieldPtr.Args[0]))
	st.heaps["G$owner"] = tt.Store(h, ref, nv)
	x.recordWrite("G$owner", ref)
}

// baseObject: the object an embedded struct address belongs to (fa$T$f(b) -> b, recursively).
func (x *Exec) baseObject(p *Term) *Term {
	for shapeOf(p) == shField {
		p = p.Args[0]
	}
	return p
}
