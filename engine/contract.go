package main

// Contract files: lines starting with "//@" in /repo/contracts_verif.go (contracts on the code under
// verification) and in /verif/spec/*.gvc (assumed contracts of dependencies, spec predicates).
//
// Grammar (one directive per line, continuation lines start with "//@ |"):
//   func <key>                         start a function block (key as printed by funcKey)
//   extern <key>                       start a block for a dependency function (assumed)
//   iface <Type>.<Method>              contract of an interface method (used at invoke sites w/o case split)
//   pred <name>(<params>) = <expr>     spec predicate/macro (expanded at use)
//   ufunc <name>(<params>) <type>      uninterpreted spec function
//   inside a block:
//     mode bv|math
//     requires[<tags>] <expr>
//     ensures[<tags>] <expr>
//     on_panic ensures[<tags>] <expr>
//     modifies <lvalue>, <lvalue>...   ("*" = everything)
//     pure                              no heap effect (same as empty modifies; default for blocks with contracts)
//     inline                            callers inline the body
//     trusted                           body not verified (assumed contract on in-package function)
//     nopanic / maypanic                extern panics or not
//     loop <k> invariant[<tags>] <expr>
//     loop <k> unroll
//     loop <k> modifies ...
//     known_finding <key> when <expr>   carve-out region for the next ensures clause(s) with the same tag
//     sweep <tags>                      safety obligations of this function belong to these properties
//     fresh result                      result is a freshly allocated object

import (
	"fmt"
	"go/ast"
	"go/parser"
	"os"
	"regexp"
	"strconv"
	"strings"
)

type Clause struct {
	Text   string
	Expr   ast.Expr
	Tags   []string
	Line   string // file:line
	Ord    int
	KFs    []KFRegion // known-finding carve-out regions applying to this clause
}

type KFRegion struct {
	Key  string
	When ast.Expr
	Text string
}

type LoopSpec struct {
	Invariants []*Clause
	Unroll     bool
	Modifies   []ast.Expr
}

type Contract struct {
	Key          string
	Preserves    []string // with `modifies *`: struct types of this package whose field heaps the function leaves untouched
	Extern       bool
	Iface        bool
	Mode         string
	Requires     []*Clause
	Ensures      []*Clause
	PanicEnsures []*Clause
	Modifies     []ast.Expr
	ModAll       bool
	HasModifies  bool
	Inline       bool
	Trusted      bool
	MayPanic     bool
	Loops        map[int]*LoopSpec
	Sweep        []string
	FreshResult  bool
	Reveal       []string // opaque predicates whose definition this function's proof may use
	Effects      string // "validation": generic frame discipline of code working on pooled validator objects
	CaseParam    string // verify the body once per listed length of this slice parameter (lengths become literals, loops unroll)
	CaseLens     []int
	Recycled     bool // result is a pooled object: fresh or previously redeemed, fields unknown, live afterwards
	NoSweep      bool
	Line         string
	Assumes      []*Clause // explicit assumptions (reported)
	AssumeResult []*Clause // trusted facts about the result (reported), e.g. pool invariants established by the matching Redeem
	Strings      bool      // use string theory ops
	Params       []string  // for extern/iface blocks w/o ssa function: parameter names (optional)
}

type Pred struct {
	Name   string
	Params []string
	PTypes []string
	Body   ast.Expr
	Text   string
	Ret    string // for ufunc: result type name
	UF     bool
	Foldable bool // ghost flag G$ready[x]; body is proved when the flag is established (ensures of the function under verification) and assumed when it is required at entry
	Opaque bool // expanded only in functions that `reveal` it; elsewhere an uninterpreted predicate over value snapshots
}

type ContractSet struct {
	ByKey map[string]*Contract
	Preds map[string]*Pred
	Files []string
	NAssume int
	UsesPublished bool
	ValidatorTypes map[string]bool
	MutableTypes   map[string]bool
	Lemmas         map[string][]*Clause // opaque predicate -> sufficient conditions (over the predicate's parameters)
	Axioms         []*Clause // global assumptions about package-level state (reported), e.g. initialised globals
	UnframedTypes  map[string]bool
	Guarded        map[string]string // package-level variable -> package-level *sync.Mutex that guards it
	OwnedFields    map[string]bool // "T.f": the backing array / map stored in this field belongs exclusively to the object
	PooledTypes    map[string]bool // immutable-by-default types of which scratch copies live in a pool
	TypeInvs map[string][]*Clause // struct type name -> invariants over `self` (pointer to the struct)
}

var reHead = regexp.MustCompile(`^(requires|ensures|invariant|assume_result|assume)(\[[A-Za-z0-9_,\- ]*\])?\s+(.*)$`)

func parseTags(s string) []string {
	s = strings.Trim(s, "[] ")
	if s == "" {
		return nil
	}
	var out []string
	for _, t := range strings.Split(s, ",") {
		t = strings.TrimSpace(t)
		if t != "" {
			out = append(out, t)
		}
	}
	return out
}

func ParseContracts(files ...string) (*ContractSet, error) {
	cs := &ContractSet{ByKey: map[string]*Contract{}, Preds: map[string]*Pred{}, TypeInvs: map[string][]*Clause{}, ValidatorTypes: map[string]bool{}, MutableTypes: map[string]bool{}, PooledTypes: map[string]bool{}, OwnedFields: map[string]bool{}, UnframedTypes: map[string]bool{}, Lemmas: map[string][]*Clause{}}
	for _, f := range files {
		data, err := os.ReadFile(f)
		if err != nil {
			return nil, err
		}
		cs.Files = append(cs.Files, f)
		if err := cs.parseFile(f, string(data)); err != nil {
			return nil, err
		}
	}
	return cs, nil
}

func (cs *ContractSet) parseFile(fname, src string) error {
	if strings.Contains(src, "published(") {
		cs.UsesPublished = true
	}
	lines := strings.Split(src, "\n")
	// join continuation lines
	type ln struct {
		text string
		no   int
	}
	var ls []ln
	for i, raw := range lines {
		t := strings.TrimSpace(raw)
		if !strings.HasPrefix(t, "//@") {
			continue
		}
		t = strings.TrimSpace(t[3:])
		if t == "" || strings.HasPrefix(t, "#") {
			continue
		}
		if strings.HasPrefix(t, "|") && len(ls) > 0 {
			ls[len(ls)-1].text += " " + strings.TrimSpace(t[1:])
			continue
		}
		ls = append(ls, ln{t, i + 1})
	}
	var cur *Contract
	var pendingKF []KFRegion
	for _, l := range ls {
		where := fmt.Sprintf("%s:%d", fname, l.no)
		fail := func(format string, a ...interface{}) error {
			return fmt.Errorf("%s: %s (in %q)", where, fmt.Sprintf(format, a...), l.text)
		}
		t := l.text
		word, rest := splitWord(t)
		switch word {
		case "func", "extern", "iface", "functype":
			key := strings.TrimSpace(rest)
			if word == "functype" {
				key = "functype " + key
			}
			if _, dup := cs.ByKey[key]; dup {
				return fail("duplicate contract block for %s", key)
			}
			cur = &Contract{Key: key, Extern: word == "extern" || word == "functype", Iface: word == "iface", Loops: map[int]*LoopSpec{}, Line: where}
			cs.ByKey[key] = cur
			pendingKF = nil
			continue
		case "axiom":
			e, err := parser.ParseExpr(rest)
			if err != nil {
				return fail("axiom: %v", err)
			}
			cs.Axioms = append(cs.Axioms, &Clause{Text: rest, Expr: e, Line: where})
			cs.NAssume++
			continue
		case "guarded":
			// guarded <global> by <mutex global>: every load and store of the global needs the mutex held
			f := strings.Fields(rest)
			if len(f) != 3 || f[1] != "by" {
				return fail("guarded <global> by <mutex global>")
			}
			if cs.Guarded == nil {
				cs.Guarded = map[string]string{}
			}
			cs.Guarded[f[0]] = f[2]
			continue
		case "owned_fields":
			for _, f := range strings.Split(rest, ",") {
				if f = strings.TrimSpace(f); f != "" {
					cs.OwnedFields[f] = true
				}
			}
			continue
		case "validator_types", "mutable_types", "pooled_types", "unframed_types":
			for _, tn := range strings.Split(rest, ",") {
				tn = strings.TrimSpace(tn)
				if tn == "" {
					continue
				}
				switch word {
				case "validator_types":
					cs.ValidatorTypes[tn] = true
				case "mutable_types":
					cs.MutableTypes[tn] = true
				case "unframed_types":
					cs.UnframedTypes[tn] = true
				default:
					cs.PooledTypes[tn] = true
				}
			}
			continue
		case "typeinv":
			// typeinv <Type>: <expr over self>
			i := strings.Index(rest, ":")
			if i < 0 {
				return fail("typeinv <Type>: <expr>")
			}
			tn := strings.TrimSpace(rest[:i])
			e, err := parser.ParseExpr(strings.TrimSpace(rest[i+1:]))
			if err != nil {
				return fail("typeinv: %v", err)
			}
			cs.TypeInvs[tn] = append(cs.TypeInvs[tn], &Clause{Text: strings.TrimSpace(rest[i+1:]), Expr: e, Line: where})
			continue
		case "lemma":
			// lemma <pred>(<params>) if <cond>: the opaque predicate holds whenever cond does (proved where the predicate is revealed)
			m := reLemma.FindStringSubmatch(rest)
			if m == nil {
				return fail("lemma <pred>(<params>) if <expr>")
			}
			e, err := parser.ParseExpr(m[3])
			if err != nil {
				return fail("lemma: %v", err)
			}
			cs.Lemmas[m[1]] = append(cs.Lemmas[m[1]], &Clause{Text: m[3], Expr: e, Line: where})
			continue
		case "foldable":
			// foldable <name>(<param> <type>) = <body>: a ghost readiness flag with a one-level meaning (see effects.go)
			p, err := parsePred(rest, false)
			if err != nil {
				return fail("%v", err)
			}
			p.Foldable = true
			cs.Preds[p.Name] = p
			continue
		case "opaque":
			w2, r2 := splitWord(rest)
			if w2 != "pred" {
				return fail("opaque pred ...")
			}
			p, err := parsePred(r2, false)
			if err != nil {
				return fail("%v", err)
			}
			p.Opaque = true
			cs.Preds[p.Name] = p
			continue
		case "pred", "ufunc":
			p, err := parsePred(rest, word == "ufunc")
			if err != nil {
				return fail("%v", err)
			}
			cs.Preds[p.Name] = p
			continue
		}
		if cur == nil {
			return fail("directive outside of a func/extern block")
		}
		onPanic := false
		if word == "on_panic" {
			onPanic = true
			t = strings.TrimSpace(rest)
			word, rest = splitWord(t)
		}
		loopNo := 0
		if word == "loop" {
			w2, r2 := splitWord(rest)
			n, err := strconv.Atoi(strings.TrimSuffix(w2, ":"))
			if w2 == "*" {
				// `loop * invariant e`: e is an invariant of every loop of the function (kept under key -1)
				n, err = -1, nil
			}
			if err != nil {
				return fail("bad loop ordinal")
			}
			loopNo = n
			t = strings.TrimSpace(r2)
			word, rest = splitWord(t)
			if cur.Loops[loopNo] == nil {
				cur.Loops[loopNo] = &LoopSpec{}
			}
		}
		switch {
		case word == "mode":
			cur.Mode = strings.TrimSpace(rest)
		case word == "inline":
			cur.Inline = true
		case word == "trusted":
			cur.Trusted = true
		case word == "maypanic":
			cur.MayPanic = true
		case word == "nopanic":
			cur.MayPanic = false
		case word == "pure":
			cur.HasModifies = true
		case word == "strings":
			cur.Strings = true
		case word == "nosweep":
			cur.NoSweep = true
		case word == "sweep":
			cur.Sweep = append(cur.Sweep, parseTags(rest)...)
		case word == "params":
			for _, p := range strings.Split(rest, ",") {
				cur.Params = append(cur.Params, strings.TrimSpace(p))
			}
		case word == "fresh":
			cur.FreshResult = true
		case word == "recycled":
			cur.Recycled = true
		case word == "effects":
			cur.Effects = strings.TrimSpace(rest)
		case word == "reveal":
			for _, n := range strings.Split(rest, ",") {
				if n = strings.TrimSpace(n); n != "" {
					cur.Reveal = append(cur.Reveal, n)
				}
			}
		case word == "case_len":
			f := strings.Fields(rest)
			if len(f) < 2 {
				return fail("case_len <param> <n>...")
			}
			cur.CaseParam = f[0]
			for _, a := range f[1:] {
				n, err := strconv.Atoi(a)
				if err != nil {
					return fail("case_len: bad length")
				}
				cur.CaseLens = append(cur.CaseLens, n)
			}
		case word == "unroll" && loopNo != 0:
			cur.Loops[loopNo].Unroll = true
		case word == "modifies":
			cur.HasModifies = true
			for _, part := range splitTop(rest, ',') {
				part = strings.TrimSpace(part)
				if part == "" {
					continue
				}
				if part == "*" {
					if loopNo == 0 {
						cur.ModAll = true
					}
					continue
				}
				e, err := parser.ParseExpr(part)
				if err != nil {
					return fail("modifies: %v", err)
				}
				if loopNo != 0 {
					cur.Loops[loopNo].Modifies = append(cur.Loops[loopNo].Modifies, e)
				} else {
					cur.Modifies = append(cur.Modifies, e)
				}
			}
		case word == "preserves":
			for _, part := range splitTop(rest, ',') {
				if part = strings.TrimSpace(part); part != "" {
					cur.Preserves = append(cur.Preserves, part)
				}
			}
		case word == "known_finding":
			key, r2 := splitWord(rest)
			w, r3 := splitWord(r2)
			if w != "when" {
				return fail("known_finding <key> when <expr>")
			}
			e, err := parser.ParseExpr(r3)
			if err != nil {
				return fail("known_finding region: %v", err)
			}
			pendingKF = append(pendingKF, KFRegion{key, e, r3})
		default:
			m := reHead.FindStringSubmatch(t)
			if m == nil {
				return fail("unknown directive %q", word)
			}
			e, err := parser.ParseExpr(m[3])
			if err != nil {
				return fail("expression: %v", err)
			}
			c := &Clause{Text: m[3], Expr: e, Tags: parseTags(m[2]), Line: where}
			switch m[1] {
			case "requires":
				c.Ord = len(cur.Requires) + 1
				cur.Requires = append(cur.Requires, c)
			case "ensures":
				c.KFs = pendingKF
				pendingKF = nil
				if onPanic {
					c.Ord = len(cur.PanicEnsures) + 1
					cur.PanicEnsures = append(cur.PanicEnsures, c)
				} else {
					c.Ord = len(cur.Ensures) + 1
					cur.Ensures = append(cur.Ensures, c)
				}
			case "invariant":
				if loopNo == 0 {
					return fail("invariant outside loop")
				}
				ls := cur.Loops[loopNo]
				c.Ord = len(ls.Invariants) + 1
				if loopNo < 0 {
					c.Ord += 100
				}
				ls.Invariants = append(ls.Invariants, c)
			case "assume":
				cur.Assumes = append(cur.Assumes, c)
				cs.NAssume++
			case "assume_result":
				cur.AssumeResult = append(cur.AssumeResult, c)
				cs.NAssume++
			}
		}
	}
	// untagged requires/invariants are checked under every property that the contract's ensures/sweep mention
	for _, c := range cs.ByKey {
		def := c.frameTags()
		for _, cl := range c.Requires {
			if len(cl.Tags) == 0 {
				cl.Tags = def
			}
		}
		for _, l := range c.Loops {
			for _, cl := range l.Invariants {
				if len(cl.Tags) == 0 {
					cl.Tags = def
				}
			}
		}
	}
	return nil
}

func splitWord(s string) (string, string) {
	s = strings.TrimSpace(s)
	i := strings.IndexAny(s, " \t")
	if i < 0 {
		return s, ""
	}
	return s[:i], strings.TrimSpace(s[i+1:])
}

// splitTop splits at sep outside of parentheses/brackets.
func splitTop(s string, sep rune) []string {
	var out []string
	depth := 0
	last := 0
	for i, c := range s {
		switch c {
		case '(', '[', '{':
			depth++
		case ')', ']', '}':
			depth--
		default:
			if c == sep && depth == 0 {
				out = append(out, s[last:i])
				last = i + 1
			}
		}
	}
	out = append(out, s[last:])
	return out
}

var reLemma = regexp.MustCompile(`^([A-Za-z_][A-Za-z0-9_]*)\(([^)]*)\)\s+if\s+(.*)$`)

var rePred = regexp.MustCompile(`^([A-Za-z_][A-Za-z0-9_]*)\(([^)]*)\)\s*(.*)$`)

func parsePred(s string, uf bool) (*Pred, error) {
	m := rePred.FindStringSubmatch(strings.TrimSpace(s))
	if m == nil {
		return nil, fmt.Errorf("bad pred/ufunc head")
	}
	p := &Pred{Name: m[1], UF: uf, Text: s}
	if strings.TrimSpace(m[2]) != "" {
		for _, prm := range strings.Split(m[2], ",") {
			n, ty := splitWord(strings.TrimSpace(prm))
			p.Params = append(p.Params, n)
			p.PTypes = append(p.PTypes, ty)
		}
	}
	rest := strings.TrimSpace(m[3])
	if uf {
		p.Ret = rest
		return p, nil
	}
	if !strings.HasPrefix(rest, "=") {
		return nil, fmt.Errorf("pred needs '= expr'")
	}
	e, err := parser.ParseExpr(strings.TrimSpace(rest[1:]))
	if err != nil {
		return nil, err
	}
	p.Body = e
	return p, nil
}

func hasTag(tags []string, t string) bool {
	for _, x := range tags {
		if x == t {
			return true
		}
	}
	return false
}
