package main

import (
	"fmt"
	"os"
	"go/token"
	"go/types"
	"sort"
	"strings"

	"golang.org/x/tools/go/ssa"
)

type Obligation struct {
	Name    string
	Class   string
	Detail  string
	Tags    []string
	NFacts  int
	RetNil  *Term   // for ensures obligations: "the single pointer/interface result is nil" (used to replay a model)
	Facts   []*Term // the facts in scope when the obligation was generated (x.facts[:NFacts] of its epoch)
	Epoch   int
	PC      *Term
	Goal    *Term
	Pos     string
	KFKey   string // if non-empty: this obligation is the inside-region part of a known finding (expected to fail)
	Text    string
	Builtin bool // folded to true during construction
}

type Frame struct {
	fn      *ssa.Function
	parent  *Frame
	con     *Contract
	rets    []*State
	retVals [][]Value
	panics  []*State
	entry   *State
	depth   int
	tag     string // obligation name prefix for inlined frames
	lf      *LoopForest
	args    []Value
}

type Exec struct {
	prog *Prog
	tt   *TermTable
	fn   *ssa.Function
	con  *Contract
	bv   bool

	facts      []*Term
	obls       []*Obligation
	oblCount   map[string]int
	notes      map[string]int
	heapSorts  map[string]string
	addrSeen   map[int]bool
	loadedSeen map[int]bool
	recorders  []*writeRecorder
	localCells map[int]string

	uncontracted  map[string]int // callee key -> count (havocked)
	assumedExtern map[string]int // extern contracts/models used
	inlined       map[string]int
	havocAllCount int
	havocEvents   []func(string) bool // one entry per whole-state havoc: which heaps it kept (nil: none)
	unsupported   []string
	curPos        token.Pos
	curPC         *Term
	quiet         bool // suppress obligations (dry pass)
	globals       []*Term
	symMax        map[int]int
	nilMapSeen    map[string]bool
	iters         map[int]*rangeIter
	ifaceUsed     map[string]*types.Interface
	nameTypes     map[string]types.Type
	kindUsed      bool
	inSpec        int
	noWriteCheck  int
	curFrame      *Frame
	knownTag      map[int]*Term
	scratch       string
	nQuick        int
	infeasible    map[string]bool
	infeasiblePC  map[string]int
	guarded       map[int][]guardedTag
	condTag       map[int]*Term // tag of v provided v is not the nil interface
	recycledCells []recycledCell
	mixN          int
	mixInfo       map[string]mixRec
	descAxiom     bool
	curStateForOwner *State
	topFrame      *Frame
	explTargets   map[string][]*Term
	pooledCl      map[string]bool
	arrEmb        []string
	faFieldType   map[string]string
	childSeen     map[string]bool
	childrenOf    map[int][]*Term
	arrOwnerHint  map[int]*Term
	valOrigin     map[int]*Term
	inlineMemo    map[*ssa.Function]bool
	jsonSeen      map[int]bool
	oblFacts      map[int]bool
	permIdx       map[int]bool
	curLoopClk    *Term
	evalTerms     []*Term
	ptrofSeen     map[int]bool
	epoch         int
	arrEmbElem    map[string]bool
	ifaceUsedCon  map[string]int
	inTypeInv     int
	ownObjs       map[int]bool
	invAssumed    map[string]bool
	invWritten    map[string]invObj
	invOrder      []string
	strTheory     bool
	strLits       map[string]string
	sweepTags     []string
	tidsUsed      map[int]bool
	entryState    *State
}

func NewExec(p *Prog, fn *ssa.Function) *Exec {
	x := &Exec{prog: p, tt: NewTermTable(), fn: fn, oblCount: map[string]int{}, notes: map[string]int{},
		heapSorts: map[string]string{}, addrSeen: map[int]bool{}, loadedSeen: map[int]bool{}, localCells: map[int]string{},
		uncontracted: map[string]int{}, assumedExtern: map[string]int{}, inlined: map[string]int{}, tidsUsed: map[int]bool{},
		nilMapSeen: map[string]bool{}, iters: map[int]*rangeIter{}, ifaceUsed: map[string]*types.Interface{}, nameTypes: map[string]types.Type{}}
	x.con = p.Cons.ByKey[funcKey(fn)]
	if x.con != nil && x.con.Mode == "bv" {
		x.bv = true
	}
	if x.con != nil && x.con.Strings {
		x.strTheory = true
	}
	x.strLits = map[string]string{}
	x.ownObjs = map[int]bool{}
	x.mixInfo = map[string]mixRec{}
	x.faFieldType = map[string]string{}
	x.childSeen = map[string]bool{}
	x.childrenOf = map[int][]*Term{}
	x.arrOwnerHint = map[int]*Term{}
	x.valOrigin = map[int]*Term{}
	x.registerFieldAddrs()
	x.inlineMemo = map[*ssa.Function]bool{}
	x.jsonSeen = map[int]bool{}
	x.oblFacts = map[int]bool{}
	x.permIdx = map[int]bool{}
	x.ifaceUsedCon = map[string]int{}
	x.invAssumed = map[string]bool{}
	x.invWritten = map[string]invObj{}
	return x
}

func (x *Exec) note(s string) { x.notes[s]++ }

func (x *Exec) addFactRaw(f *Term) {
	if isTrue(f) {
		return
	}
	if f.hasBound {
		// side facts about terms under a quantifier (e.g. addresses computed from a bound variable) cannot be stated globally
		return
	}
	x.learnTags(f)
	x.facts = append(x.facts, f)
}

// addPermFact: an unconditional structural fact emitted once per term (guarded by a seen-set, which is rolled back
// together with the facts when a dry pass is discarded).
func (x *Exec) addPermFact(f *Term) { x.addFactRaw(f) }

func copyMap[K comparable, V any](m map[K]V) map[K]V {
	out := make(map[K]V, len(m))
	for k, v := range m {
		out[k] = v
	}
	return out
}

// truncFacts drops the facts added since index n, except the unconditional ones (structural axioms about address
// terms and the like are emitted once per term, so they must survive a discarded dry pass).
func (x *Exec) truncFacts(n int) {
	var keep []*Term
	for i := n; i < len(x.facts); i++ {
		if x.permIdx[i] {
			keep = append(keep, x.facts[i])
		}
		delete(x.permIdx, i)
		delete(x.oblFacts, i)
	}
	x.facts = x.facts[:n]
	for _, f := range keep {
		x.permIdx[len(x.facts)] = true
		x.facts = append(x.facts, f)
	}
}

// addFact adds a fact guarded by the current path condition.
func (x *Exec) addFact(f *Term) {
	if x.curPC != nil {
		f = x.tt.Implies(x.curPC, f)
	}
	x.addFactRaw(f)
}

func (x *Exec) posStr(p token.Pos) string {
	if !p.IsValid() {
		return ""
	}
	ps := x.prog.Fset.Position(p)
	f := ps.Filename
	if i := strings.LastIndex(f, "/"); i >= 0 {
		f = f[i+1:]
	}
	return fmt.Sprintf("%s:%d", f, ps.Line)
}

// oblige records an obligation pc => goal and then assumes it.
func (x *Exec) oblige(fr *Frame, st *State, class, detail string, tags []string, goal *Term, text string) *Obligation {
	if x.quiet {
		return nil
	}
	base := funcKey(x.fn)
	if fr != nil && fr.tag != "" {
		base += "/" + fr.tag
	}
	key := base + "/" + class
	if detail != "" {
		key += "(" + detail + ")"
	}
	x.oblCount[key]++
	name := fmt.Sprintf("%s#%d", key, x.oblCount[key])
	full := x.tt.Implies(st.pc, goal)
	o := &Obligation{Name: name, Class: class, Detail: detail, Tags: tags, NFacts: len(x.facts), Facts: x.facts[:len(x.facts):len(x.facts)], Epoch: x.epoch, PC: st.pc, Goal: goal, Pos: x.posStr(x.curPos), Text: text}
	if isTrue(full) {
		o.Builtin = true
	}
	x.obls = append(x.obls, o)
	// assume after assert - except for goals that are false by construction (explicit panics, effects of
	// uncontracted callees): assuming those would silently make the rest of the path infeasible
	if isFalse(goal) {
		return o
	}
	n0 := len(x.facts)
	x.addFactRaw(full)
	if len(x.facts) > n0 {
		x.oblFacts[n0] = true
	}
	return o
}

// ---------- running a function

func (x *Exec) newEntryState() *State {
	st := &State{pc: x.tt.True(), heaps: map[string]*Term{}, regs: map[ssa.Value]Value{}, names: map[string]Value{}}
	st.clk = x.tt.Sym("clk@0", "Int")
	return st
}

// Run verifies x.fn against its contract and generates safety obligations.
func (x *Exec) Run() (err error) {
	defer func() {
		if r := recover(); r != nil {
			err = fmt.Errorf("engine: %v (at %s)", r, x.posStr(x.curPos))
		}
	}()
	if x.con != nil && x.con.CaseParam != "" {
		for _, n := range x.con.CaseLens {
			x.runOnce(fmt.Sprintf("len(%s)=%d", x.con.CaseParam, n), x.con.CaseParam, n)
		}
		return nil
	}
	x.runOnce("", "", 0)
	return nil
}

func (x *Exec) runOnce(tag, caseParam string, caseLen int) {
	fn := x.fn
	st := x.newEntryState()
	fr := &Frame{fn: fn, con: x.con, lf: x.prog.LoopsOf(fn), tag: tag}
	x.topFrame = fr
	x.explTargets = nil
	// parameters
	for _, p := range fn.Params {
		v := x.fresh("p$"+p.Name(), p.Type())
		if caseParam != "" && p.Name() == caseParam {
			sl := asTerm(v)
			v = x.mkSlice(x.sArr(sl), x.GoInt(int64(caseLen)), x.sCap(sl))
			x.addFactRaw(x.iLe(x.GoInt(int64(caseLen)), x.sCap(sl)))
			if caseLen > 0 {
				x.addFactRaw(x.tt.Gt(x.sArr(sl), x.tt.IntLit(0)))
			}
		}
		st.regs[p] = v
		st.names[p.Name()] = v
		x.nameTypes[p.Name()] = p.Type()
		fr.args = append(fr.args, v)
		x.assumeExisting(st, v, p.Type())
	}
	for i, fv := range fn.FreeVars {
		v := x.fresh(fmt.Sprintf("fv$%d$%s", i, fv.Name()), fv.Type())
		st.regs[fv] = v
		x.assumeExisting(st, v, fv.Type())
		if _, isP := fv.Type().Underlying().(*types.Pointer); isP {
			// captured variables live in cells that exist
			if vt, ok := v.(*Term); ok {
				x.addFactRaw(x.tt.Gt(vt, x.tt.IntLit(0)))
			}
		}
	}
	x.curPC = st.pc
	fr.entry = st.clone()
	x.entryState = fr.entry
	if rt := x.recvTerm(fr); rt != nil && len(x.prog.Cons.ValidatorTypes) > 0 {
		x.addFactRaw(x.tt.Implies(x.tt.Not(x.tt.Eq(rt, x.tt.IntLit(0))), x.descT(rt, rt)))
	}
	// implicit precondition: validator / Result objects passed in are live (not sitting in a pool)
	for i, p := range fn.Params {
		if x.isLiveTrackedPtr(p.Type()) && !x.isRedeemFunc(fn) {
			pt := asTerm(fr.args[i])
			red := x.tt.Select(x.heap(st, "G$redeemed", arraySort("Int", "Bool")), pt)
			x.addFactRaw(x.tt.Or(x.tt.Eq(pt, x.tt.IntLit(0)), x.tt.Not(red)))
		}
	}
	// implicit precondition: a pointer receiver that the body never compares with nil is non-nil
	if x.prog.implicitRecvNonNil(fn) {
		x.addFactRaw(x.tt.Not(x.tt.Eq(asTerm(fr.args[0]), x.tt.IntLit(0))))
	}
	// global axioms about package-level state
	for _, c := range x.prog.Cons.Axioms {
		func() {
			defer func() { recover() }()
			env := x.contractEnv(fr, st, fr.entry, nil)
			x.addFactRaw(x.evalBool(env, c.Expr))
		}()
	}
	// interface contracts this method implements: its own preconditions follow from the interface's
	x.refinesPre(fr, st)
	// requires
	if x.con != nil {
		for _, c := range x.con.Requires {
			env := x.contractEnv(fr, st, fr.entry, nil)
			env.foldMode = 2
			t := x.evalBool(env, c.Expr)
			x.addFactRaw(t)
		}
		for _, c := range x.con.Assumes {
			env := x.contractEnv(fr, st, fr.entry, nil)
			x.addFactRaw(x.evalBool(env, c.Expr))
		}
	}
	// lemmas about opaque predicates are proved where the predicate is revealed
	if x.con != nil {
		for _, pn := range x.con.Reveal {
			p := x.prog.Cons.Preds[pn]
			if p == nil {
				continue
			}
			for k, lm := range x.prog.Cons.Lemmas[pn] {
				env := &Env{x: x, st: st, old: fr.entry, vars: map[string]Value{}, vtypes: map[string]types.Type{}, fr: fr}
				for i, prm := range p.Params {
					T := x.lookupType(p.PTypes[i])
					env.vars[prm] = x.fresh("lemma$"+prm, T)
					env.vtypes[prm] = T
				}
				cond := x.evalBool(env, lm.Expr)
				body := x.evalBool(env, p.Body)
				x.oblige(fr, st, "lemma", fmt.Sprintf("%s:%d", pn, k+1), fr.con.frameTags(), x.tt.Implies(cond, body), "lemma: "+pn+" holds if "+lm.Text)
			}
		}
	}
	if os.Getenv("GOVC_DEBUG") != "" {
		fmt.Fprintf(os.Stderr, "debug: %d known tags, %d conditional tags at entry of %s\n", len(x.knownTag), len(x.condTag), funcKey(fn))
	}
	x.runBody(fr, st)
	x.finish(fr)
}

// assumeExisting: pointers passed in refer to objects that exist already.
func (x *Exec) assumeExisting(st *State, v Value, t types.Type) {
	switch vv := v.(type) {
	case *Term:
		switch t.Underlying().(type) {
		case *types.Pointer, *types.Map:
			x.addFactRaw(x.tt.Lt(x.tt.UF("birth$", "Int", vv), st.clk))
		case *types.Slice:
			x.addFactRaw(x.tt.Lt(x.tt.UF("birth$", "Int", x.sArr(vv)), st.clk))
		case *types.Interface:
			if vv.Sort == "Val" {
				x.assumeValExisting(st, vv)
			}
		}
	case *Agg:
		switch u := t.Underlying().(type) {
		case *types.Struct:
			for i := range vv.Elems {
				x.assumeExisting(st, vv.Elems[i], u.Field(i).Type())
			}
		}
	}
}

// runBody executes all blocks of fr.fn from state st (at entry block).
func (x *Exec) runBody(fr *Frame, st *State) {
	if len(fr.fn.Blocks) == 0 {
		panic("no body: " + funcKey(fr.fn))
	}
	exits, backs := x.runRegion(fr, nil, fr.fn.Blocks[0], st)
	if len(exits) > 0 || len(backs) > 0 {
		panic("top-level region has exits")
	}
}

type edge struct {
	from, to *ssa.BasicBlock
	st       *State
}

// runRegion executes the blocks of loop L (or the whole function when L==nil) starting at entry.
// Returns edges leaving the region and back edges to L.Header.
func (x *Exec) runRegion(fr *Frame, L *Loop, entry *ssa.BasicBlock, st *State) (exits []edge, backs []edge) {
	lf := fr.lf
	pending := map[*ssa.BasicBlock][]edge{}
	pending[entry] = []edge{{nil, entry, st}}
	inRegion := func(b *ssa.BasicBlock) bool { return L == nil || L.Blocks[b] }
	route := func(e edge) {
		if e.st == nil || isFalse(e.st.pc) {
			return
		}
		if L != nil && e.to == L.Header {
			backs = append(backs, e)
			return
		}
		if !inRegion(e.to) {
			exits = append(exits, e)
			return
		}
		pending[e.to] = append(pending[e.to], e)
	}
	for _, b := range lf.RPO {
		if !inRegion(b) {
			continue
		}
		ins := pending[b]
		if len(ins) == 0 {
			continue
		}
		delete(pending, b)
		// child loop header?
		if cl := lf.ByHeader[b]; cl != nil && cl != L {
			for _, e := range x.runLoop(fr, cl, ins) {
				route(e)
			}
			continue
		}
		if in := lf.Inner[b]; in != L {
			// block belongs to a nested loop but reached not via its header
			panic(fmt.Sprintf("irreducible control flow at block %d of %s", b.Index, funcKey(fr.fn)))
		}
		s := x.enterBlock(fr, b, ins)
		if s == nil {
			continue
		}
		for _, e := range x.execBlock(fr, b, s) {
			route(e)
		}
	}
	for b, ins := range pending {
		if len(ins) > 0 {
			panic(fmt.Sprintf("unprocessed pending edges into block %d", b.Index))
		}
	}
	return
}

// enterBlock merges incoming edges and evaluates phis.
func (x *Exec) enterBlock(fr *Frame, b *ssa.BasicBlock, ins []edge) *State {
	// evaluate phi values per incoming edge first
	type phiVals struct{ vals []Value }
	var phis []*ssa.Phi
	for _, in := range b.Instrs {
		if p, ok := in.(*ssa.Phi); ok {
			phis = append(phis, p)
		} else {
			break
		}
	}
	var sts []*State
	for _, e := range ins {
		s := e.st
		if len(phis) > 0 && e.from != nil {
			idx := -1
			for i, pr := range b.Preds {
				if pr == e.from {
					idx = i
					break
				}
			}
			if idx < 0 {
				panic("phi: predecessor not found")
			}
			vals := make([]Value, len(phis))
			for i, p := range phis {
				vals[i] = x.val(fr, s, p.Edges[idx])
			}
			for i, p := range phis {
				s.regs[p] = vals[i]
				if p.Comment != "" {
					s.names[p.Comment] = vals[i]
					x.nameTypes[p.Comment] = p.Type()
					if p.Comment == "rangeindex" {
						if hl := fr.lf.ByHeader[b]; hl != nil {
							nm := fmt.Sprintf("idx%d", hl.Ordinal)
							s.names[nm] = vals[i]
							x.nameTypes[nm] = p.Type()
						}
					}
				}
			}
		}
		sts = append(sts, s)
	}
	return x.mergeStates(sts)
}

func (x *Exec) val(fr *Frame, st *State, v ssa.Value) Value {
	switch vv := v.(type) {
	case *ssa.Const:
		return x.constVal(vv)
	case *ssa.Global:
		return x.globalAddr(vv)
	case *ssa.Function:
		return &Closure{Fn: vv}
	case *ssa.Builtin:
		panic("builtin used as value")
	}
	r, ok := st.regs[v]
	if !ok {
		panic(fmt.Sprintf("undefined register %s (%T) in %s", v.Name(), v, funcKey(fr.fn)))
	}
	return r
}

func (x *Exec) globalAddr(g *ssa.Global) *Term {
	name := "g$" + g.Pkg.Pkg.Name() + "." + g.Name()
	t := x.tt.Sym(name, "Int")
	if !x.addrSeen[t.id] {
		x.addrSeen[t.id] = true
		x.addPermFact(x.tt.Gt(t, x.tt.IntLit(0)))
		x.addPermFact(x.tt.Lt(x.tt.UF("birth$", "Int", t), x.tt.Sym("clk@0", "Int")))
		x.addPermFact(x.tt.UF("isbase$", "Bool", t))
		x.globals = append(x.globals, t)
		for _, o := range x.globals[:len(x.globals)-1] {
			x.addPermFact(x.tt.Not(x.tt.Eq(o, t)))
		}
	}
	return t
}

// runLoop handles a natural loop. ins: edges entering the header from outside.
func (x *Exec) runLoop(fr *Frame, L *Loop, ins []edge) []edge {
	var spec *LoopSpec
	if fr.con != nil && fr.con.Loops != nil {
		spec = fr.con.Loops[L.Ordinal]
	}
	if fr.depth > 0 {
		// inlined callee: use the callee's own contract loops
		if c := x.prog.Cons.ByKey[funcKey(fr.fn)]; c != nil {
			spec = c.Loops[L.Ordinal]
		}
	}
	// `loop * invariant`: invariants common to every loop of the function
	var con0 *Contract
	if fr.depth > 0 {
		con0 = x.prog.Cons.ByKey[funcKey(fr.fn)]
	} else {
		con0 = fr.con
	}
	if con0 != nil && con0.Loops != nil {
		if all := con0.Loops[-1]; all != nil && len(all.Invariants) > 0 {
			merged := &LoopSpec{}
			if spec != nil {
				*merged = *spec
				merged.Invariants = append([]*Clause{}, spec.Invariants...)
			}
			merged.Invariants = append(merged.Invariants, all.Invariants...)
			spec = merged
		}
	}
	unroll := spec != nil && spec.Unroll
	if spec == nil || (len(spec.Invariants) == 0 && !unroll) {
		if x.autoUnrollable(L) {
			unroll = true
		}
	}
	if unroll {
		return x.runLoopUnrolled(fr, L, ins, spec)
	}
	return x.runLoopInv(fr, L, ins, spec)
}

// autoUnrollable: rangeindex loop over a constant-length array.
func (x *Exec) autoUnrollable(L *Loop) bool {
	h := L.Header
	if h.Comment != "rangeindex.loop" {
		return false
	}
	for _, in := range h.Instrs {
		if b, ok := in.(*ssa.BinOp); ok && b.Op == token.LSS {
			if c, ok := b.Y.(*ssa.Const); ok && c.Value != nil {
				if n, ok := constInt(c); ok && n <= 16 {
					return true
				}
			}
		}
	}
	return false
}

func constInt(c *ssa.Const) (int64, bool) {
	if c.Value == nil {
		return 0, false
	}
	return c.Int64(), true
}

func (x *Exec) runLoopUnrolled(fr *Frame, L *Loop, ins []edge, spec *LoopSpec) []edge {
	var exits []edge
	cur := ins
	var snap *seenSnap
	if spec != nil && spec.Unroll && len(spec.Invariants) > 0 && fr.depth == 0 && !x.quiet {
		snap = x.snapSeen()
	}
	var exitFacts []*Term
	for iter := 0; ; iter++ {
		if iter > 40 {
			panic(fmt.Sprintf("loop %d of %s: unrolling did not terminate (needs an invariant)", L.Ordinal, funcKey(fr.fn)))
		}
		s := x.enterBlock(fr, L.Header, cur)
		if s == nil {
			break
		}
		if spec != nil && spec.Unroll && len(spec.Invariants) > 0 {
			x.cutIteration(fr, L, s, spec, iter, snap)
		}
		ex, backs := x.runRegionFromHeader(fr, L, s)
		if snap != nil {
			// states that leave through a break outlive the facts of their iteration: cut them here as well
			for _, e := range ex {
				if e.from != L.Header && e.st != nil && !isFalse(e.st.pc) {
					exitFacts = append(exitFacts, x.cutExit(fr, L, e.st, spec, iter, snap)...)
				}
			}
		}
		exits = append(exits, ex...)
		if len(backs) == 0 {
			break
		}
		cur = backs
	}
	for _, f := range exitFacts {
		x.addFactRaw(f)
	}
	return exits
}

// cutExit: an early exit (break) from iteration iter of an unrolled loop with cuts. The loop invariant, read with the
// range index standing at the element just processed, is proved in the iteration's own fact scope; the state is then
// abstracted like at an iteration head and the invariant facts for it are returned (they are asserted again after the
// loop, when the iteration's facts are gone).
func (x *Exec) cutExit(fr *Frame, L *Loop, st *State, spec *LoopSpec, iter int, snap *seenSnap) []*Term {
	lname := fmt.Sprintf("loop%d", L.Ordinal)
	idxName := fmt.Sprintf("idx%d", L.Ordinal)
	for _, in := range L.Header.Instrs {
		if p, ok := in.(*ssa.Phi); ok && p.Comment == "rangeindex" {
			st.names[idxName] = x.GoInt(int64(iter))
			x.nameTypes[idxName] = p.Type()
		}
	}
	savedPC := x.curPC
	x.curPC = st.pc
	defer func() { x.curPC = savedPC }()
	for _, c := range spec.Invariants {
		env := x.contractEnv(fr, st, fr.entry, nil)
		g := x.evalBool(env, c.Expr)
		x.oblige(fr, st, "inv-exit", fmt.Sprintf("%s:%d@%d", lname, c.Ord, iter), c.Tags, g, c.Text)
	}
	if !x.topEffects() {
		return nil
	}
	for _, n := range x.effectHeaps(st) {
		srt := x.heapSorts[n]
		if srt == "" {
			continue
		}
		x.loopMix(fr, st, n, srt, fmt.Sprintf("%s.x%d", lname, iter))
	}
	var out []*Term
	nf := len(x.facts)
	st.clk = x.advanceClk(st)
	if snap.clk != nil {
		x.addFactRaw(x.tt.Gt(st.clk, snap.clk))
	}
	for _, c := range spec.Invariants {
		env := x.contractEnv(fr, st, fr.entry, nil)
		x.addFact(x.evalBool(env, c.Expr))
	}
	out = append(out, x.facts[nf:]...)
	return out
}

// runRegionFromHeader executes loop L's body with header state s (phis already evaluated).
func (x *Exec) runRegionFromHeader(fr *Frame, L *Loop, s *State) (exits []edge, backs []edge) {
	lf := fr.lf
	pending := map[*ssa.BasicBlock][]edge{}
	route := func(e edge) {
		if e.st == nil || isFalse(e.st.pc) {
			return
		}
		if e.to == L.Header {
			backs = append(backs, e)
			return
		}
		if !L.Blocks[e.to] {
			exits = append(exits, e)
			return
		}
		pending[e.to] = append(pending[e.to], e)
	}
	for _, e := range x.execBlock(fr, L.Header, s) {
		route(e)
	}
	for _, b := range lf.RPO {
		if !L.Blocks[b] || b == L.Header {
			continue
		}
		ins := pending[b]
		if len(ins) == 0 {
			continue
		}
		delete(pending, b)
		if cl := lf.ByHeader[b]; cl != nil && cl != L {
			for _, e := range x.runLoop(fr, cl, ins) {
				route(e)
			}
			continue
		}
		if in := lf.Inner[b]; in != L {
			panic(fmt.Sprintf("irreducible control flow at block %d of %s", b.Index, funcKey(fr.fn)))
		}
		st := x.enterBlock(fr, b, ins)
		if st == nil {
			continue
		}
		for _, e := range x.execBlock(fr, b, st) {
			route(e)
		}
	}
	return
}

func (x *Exec) runLoopInv(fr *Frame, L *Loop, ins []edge, spec *LoopSpec) []edge {
	tt := x.tt
	pre := x.enterBlock(fr, L.Header, ins)
	if pre == nil {
		return nil
	}
	var phis []*ssa.Phi
	for _, in := range L.Header.Instrs {
		if p, ok := in.(*ssa.Phi); ok {
			phis = append(phis, p)
		}
	}
	lname := fmt.Sprintf("loop%d", L.Ordinal)
	if os.Getenv("GOVC_DEBUG") != "" {
		for n, v := range pre.names {
			if t, ok := v.(*Term); ok {
				fmt.Fprintf(os.Stderr, "debug %s %s: %s = %s\n", funcKey(fr.fn), lname, n, t)
			}
		}
	}
	// 1. invariant on entry
	x.curPC = pre.pc
	savedLoopClk := x.curLoopClk
	x.curLoopClk = pre.clk
	defer func() { x.curLoopClk = savedLoopClk }()
	if spec != nil {
		for _, c := range spec.Invariants {
			env := x.contractEnv(fr, pre, fr.entry, nil)
			g := x.evalBool(env, c.Expr)
			x.oblige(fr, pre, "inv-entry", fmt.Sprintf("%s:%d", lname, c.Ord), c.Tags, g, c.Text)
		}
	}
	// 2. dry pass to find the write set
	savedFacts, savedObls := len(x.facts), len(x.obls)
	savedQuiet := x.quiet
	// once-per-term side facts emitted during the dry pass are discarded with it, so the seen-sets are rolled back too
	sAddr, sLoaded, sJSON, sInvA, sChild, sNilMap := copyMap(x.addrSeen), copyMap(x.loadedSeen), copyMap(x.jsonSeen), copyMap(x.invAssumed), copyMap(x.childSeen), copyMap(x.nilMapSeen)
	sChildren := map[int][]*Term{}
	for k, v := range x.childrenOf {
		sChildren[k] = append([]*Term{}, v...)
	}
	sGlobals := len(x.globals)
	sPanics := len(fr.panics)
	savedCounts := map[string]int{}
	for k, v := range x.oblCount {
		savedCounts[k] = v
	}
	savedNotes := map[string]int{}
	for k, v := range x.notes {
		savedNotes[k] = v
	}
	watermark := tt.n
	rec := &writeRecorder{}
	x.recorders = append(x.recorders, rec)
	x.quiet = true
	x.noWriteCheck++
	dry := pre.clone()
	for _, n := range x.allHeapNames(dry) {
		if h, ok := dry.heaps[n]; ok {
			dry.heaps[n] = tt.Fresh(n+"@dry", h.Sort)
		}
	}
	for _, p := range phis {
		v := x.fresh("dry$"+p.Name(), p.Type())
		dry.regs[p] = v
		if p.Comment != "" {
			dry.names[p.Comment] = v
		}
	}
	dry.clk = x.advanceClk(dry)
	dryHavocAll := len(x.havocEvents)
	x.runRegionFromHeader(fr, L, dry)
	dryEvents := append([]func(string) bool{}, x.havocEvents[dryHavocAll:]...)
	x.recorders = x.recorders[:len(x.recorders)-1]
	x.noWriteCheck--
	x.quiet = savedQuiet
	x.truncFacts(savedFacts)
	x.addrSeen, x.loadedSeen, x.jsonSeen, x.invAssumed, x.childSeen, x.nilMapSeen, x.childrenOf = sAddr, sLoaded, sJSON, sInvA, sChild, sNilMap, sChildren
	x.globals = x.globals[:sGlobals]
	fr.panics = fr.panics[:sPanics] // panic exits seen in the dry pass are not real paths
	x.obls = x.obls[:savedObls]
	x.oblCount = savedCounts
	x.notes = savedNotes
	// propagate writes to enclosing recorders
	for _, w := range rec.writes {
		idx := w.idx
		if idx != nil && x.maxSymID(idx) > watermark {
			idx = nil
		}
		for _, r := range x.recorders {
			r.writes = append(r.writes, writeRec{w.heap, idx})
		}
	}
	// 3. havoc
	st := pre.clone()
	x.curPC = st.pc
	whole := map[string]bool{}
	points := map[string][]*Term{}
	for _, w := range rec.writes {
		if strings.HasPrefix(w.heap, "L$") && false {
			continue
		}
		if w.idx == nil || x.maxSymID(w.idx) > watermark {
			whole[w.heap] = true
		} else {
			points[w.heap] = append(points[w.heap], w.idx)
		}
	}
	for _, keep := range dryEvents {
		for _, n := range x.allHeapNames(st) {
			if !strings.HasPrefix(n, "L$") && (keep == nil || !keep(n)) {
				whole[n] = true
			}
		}
	}
	var hnames []string
	for n := range whole {
		hnames = append(hnames, n)
	}
	for n := range points {
		if !whole[n] {
			hnames = append(hnames, n)
		}
	}
	sort.Strings(hnames)
	for _, n := range hnames {
		srt := x.heapSorts[n]
		if srt == "" {
			continue
		}
		cur := x.heap(st, n, srt)
		if whole[n] {
			if x.loopMix(fr, st, n, srt, lname) {
				continue
			}
			st.heaps[n] = tt.Fresh(n+"@"+lname, srt)
			continue
		}
		_, es := splitArraySort(srt)
		seen := map[int]bool{}
		for _, idx := range points[n] {
			if seen[idx.id] {
				continue
			}
			seen[idx.id] = true
			cur = tt.Store(cur, idx, tt.Fresh(n+"@"+lname+"v", es))
		}
		st.heaps[n] = cur
	}
	for _, p := range phis {
		v := x.fresh("h$"+lname+"$"+p.Name(), p.Type())
		st.regs[p] = v
		if p.Comment != "" {
			st.names[p.Comment] = v
			x.nameTypes[p.Comment] = p.Type()
			if p.Comment == "rangeindex" {
				st.names[fmt.Sprintf("idx%d", L.Ordinal)] = v
				x.nameTypes[fmt.Sprintf("idx%d", L.Ordinal)] = p.Type()
			}
		}
	}
	st.clk = x.advanceClk(st)
	// whatever the loop-carried variables refer to exists at the loop head
	for _, p := range phis {
		x.assumeExisting(st, st.regs[p], p.Type())
	}
	// 3b. loop frame inherited from the function's modifies clause
	type lf struct {
		name     string
		pre, hdr *Term
	}
	var lframes []lf
	var allowedAt func(name string, p *Term) []*Term
	if fr.depth == 0 && fr.con != nil && fr.con.HasModifies && !fr.con.ModAll && fr.con.Effects != "validation" {
		// (under the validation-effects discipline the loop head is abstracted by loopMix instead)
		env0 := x.contractEnv(fr, fr.entry, fr.entry, nil)
		allowed := map[string][]*Term{}
		wholeOK := map[string]bool{}
		x.inSpec++
		envL := x.contractEnv(fr, pre, fr.entry, nil)
		for _, m := range fr.con.Modifies {
			for _, ev := range []*Env{env0, envL} {
				for _, t := range ev.lvalueTargets(m) {
					if t.whole {
						wholeOK[t.heap] = true
					} else {
						allowed[t.heap] = append(allowed[t.heap], t.idx)
					}
				}
			}
		}
		x.inSpec--
		allowedAt = func(name string, p *Term) []*Term {
			var out []*Term
			for _, a := range allowed[name] {
				out = append(out, tt.Eq(p, a))
			}
			// objects created since the loop was entered may be written freely
			out = append(out, tt.Ge(tt.UF("birth$", "Int", p), pre.clk))
			return out
		}
		for _, n := range hnames {
			if !whole[n] || wholeOK[n] || strings.HasPrefix(n, "L$") || strings.HasPrefix(n, "I$") {
				continue
			}
			srt := x.heapSorts[n]
			if is, _ := splitArraySort(srt); is != "Int" {
				continue
			}
			preH := x.heap(pre, n, srt)
			hdrH := st.heaps[n]
			p := tt.Bound("p", "Int")
			x.addFactRaw(tt.Implies(st.pc, tt.Forall([]*Term{p}, tt.Or(append(allowedAt(n, p), tt.Eq(tt.Select(hdrH, p), tt.Select(preH, p)))...), []*Term{tt.Select(hdrH, p)})))
			lframes = append(lframes, lf{n, preH, hdrH})
		}
	}
	// 4. assume invariants
	x.curPC = st.pc
	for _, p := range phis {
		if p.Comment == "rangeindex" {
			// trivially inductive: starts at -1 and is only incremented
			if c, ok := p.Edges[0].(*ssa.Const); ok && c.Value != nil && c.Int64() == -1 {
				x.addFact(x.iLe(x.GoInt(-1), asTerm(st.regs[p])))
			}
		}
	}
	if spec != nil {
		for _, c := range spec.Invariants {
			env := x.contractEnv(fr, st, fr.entry, nil)
			x.addFact(x.evalBool(env, c.Expr))
		}
	}
	// 5. body
	exits, backs := x.runRegionFromHeader(fr, L, st)
	// 6. invariant preserved on back edges
	if len(backs) > 0 {
		bs := x.enterBlock(fr, L.Header, backs)
		if bs != nil && spec != nil {
			x.curPC = bs.pc
			for _, c := range spec.Invariants {
				env := x.contractEnv(fr, bs, fr.entry, nil)
				g := x.evalBool(env, c.Expr)
				x.oblige(fr, bs, "inv-preserved", fmt.Sprintf("%s:%d", lname, c.Ord), c.Tags, g, c.Text)
			}
		}
		if bs != nil {
			x.curPC = bs.pc
			for _, f := range lframes {
				cur := x.heap(bs, f.name, x.heapSorts[f.name])
				if cur == f.hdr {
					continue
				}
				p := tt.Bound("p", "Int")
				g := tt.Forall([]*Term{p}, tt.Or(append(allowedAt(f.name, p), tt.Eq(tt.Select(cur, p), tt.Select(f.hdr, p)))...))
				x.oblige(fr, bs, "loop-frame", lname+":"+f.name, fr.con.frameTags(), g, "loop body writes only declared locations of "+f.name)
			}
		}
	}
	return exits
}

// maxSymID: largest id among symbols occurring in t (cached).
func (x *Exec) maxSymID(t *Term) int {
	if x.symMax == nil {
		x.symMax = map[int]int{}
	}
	if v, ok := x.symMax[t.id]; ok {
		return v
	}
	m := 0
	if t.Kind == KSym {
		m = t.id
	}
	for _, a := range t.Args {
		if v := x.maxSymID(a); v > m {
			m = v
		}
	}
	x.symMax[t.id] = m
	return m
}

// finish: merge returns, check ensures; handle panics.
func (x *Exec) finish(fr *Frame) {
	con := fr.con
	rs := x.mergeReturn(fr)
	if rs != nil && fr.depth == 0 {
		x.curPC = rs.st.pc
		x.checkTypeInvs(fr, rs.st)
		x.checkInitComplete(fr, rs.st)
	}
	if rs != nil && con != nil {
		x.curPC = rs.st.pc
		for _, c := range con.AssumeResult {
			env := x.contractEnv(fr, rs.st, fr.entry, rs.vals)
			x.addFact(x.evalBool(env, c.Expr))
		}
		for _, c := range con.Ensures {
			env := x.contractEnv(fr, rs.st, fr.entry, rs.vals)
			env.foldMode = 1
			g := x.evalBool(env, c.Expr)
			if len(c.KFs) > 0 {
				var regions []*Term
				var keys []string
				for _, k := range c.KFs {
					regions = append(regions, x.evalBool(env, k.When))
					keys = append(keys, k.Key)
				}
				// outside all regions: claimed
				if o := x.oblige(fr, rs.st, "ensures", fmt.Sprintf("%d", c.Ord), c.Tags, x.tt.Implies(x.tt.Not(x.tt.Or(regions...)), g), c.Text+"  [outside known-finding regions "+strings.Join(keys, ",")+"]"); o != nil {
					o.RetNil = x.retNilTerm(rs.vals)
				}
				for i, k := range c.KFs {
					o := x.obligeNoAssume(fr, rs.st, "ensures-in-region", fmt.Sprintf("%d:%s", c.Ord, k.Key), c.Tags, x.tt.Implies(regions[i], g), c.Text+"  [inside region "+k.Key+": "+k.Text+"]")
					if o != nil {
						o.KFKey = k.Key
					}
				}
			} else {
				if o := x.oblige(fr, rs.st, "ensures", fmt.Sprintf("%d", c.Ord), c.Tags, g, c.Text); o != nil {
					o.RetNil = x.retNilTerm(rs.vals)
				}
			}
		}
		if con.Effects == "validation" {
			// writes and callee effects were checked where they happen (write-ok / call-effects obligations)
		} else if con.HasModifies && !con.ModAll {
			x.checkFrame(fr, rs.st)
		} else if con.ModAll && len(con.Preserves) > 0 {
			x.checkPreserves(fr, rs.st)
		}
		if fr.depth == 0 {
			x.refinesPost(fr, rs.st, rs.vals, false)
		}
	}
	x.flushPanics(fr)
}

// flushPanics runs the deferred calls and checks the on_panic clauses on the panic exits collected so far (called at
// the end of the function and before every scope cut, while the facts of the epoch of those exits are in scope).
func (x *Exec) flushPanics(fr *Frame) {
	con := fr.con
	if len(fr.panics) > 0 {
		// deferred calls run on the panic paths too (their preconditions and effects are checked there);
		// one path at a time while there are few of them (a merged panic state is a large case split for the solver)
		groups := [][]*State{fr.panics}
		if os.Getenv("GOVC_DEBUG") != "" {
			fmt.Fprintf(os.Stderr, "debug: %s has %d panic exits\n", funcKey(fr.fn), len(fr.panics))
		}
		if len(fr.panics) <= 16 && anyDefers(fr.panics) {
			groups = nil
			for _, p := range fr.panics {
				groups = append(groups, []*State{p})
			}
		}
		for _, g := range groups {
			ps := x.mergeStates(g)
			if ps == nil {
				continue
			}
			ps = x.runDefers(fr, ps, true)
			x.curPC = ps.pc
			var pens []*Clause
			if con != nil {
				pens = con.PanicEnsures
			}
			for _, c := range pens {
				env := x.contractEnv(fr, ps, fr.entry, nil)
				g := x.evalBool(env, c.Expr)
				x.oblige(fr, ps, "on_panic-ensures", fmt.Sprintf("%d", c.Ord), c.Tags, g, c.Text)
			}
			if fr.depth == 0 && con != nil {
				x.refinesPost(fr, ps, nil, true)
			}
		}
	}
	fr.panics = nil
}

func (x *Exec) obligeNoAssume(fr *Frame, st *State, class, detail string, tags []string, goal *Term, text string) *Obligation {
	n := len(x.facts)
	o := x.oblige(fr, st, class, detail, tags, goal, text)
	x.truncFacts(n)
	return o
}

type retState struct {
	st   *State
	vals []Value
}

func (x *Exec) mergeReturn(fr *Frame) *retState {
	if len(fr.rets) == 0 {
		return nil
	}
	// attach return values into regs under synthetic keys so that mergeStates merges them
	n := len(fr.retVals[0])
	keys := make([]ssa.Value, n)
	for i := range keys {
		keys[i] = &ssa.Parameter{} // unique pointer identity
	}
	for j, s := range fr.rets {
		for i := 0; i < n; i++ {
			s.regs[keys[i]] = fr.retVals[j][i]
		}
	}
	m := x.mergeStates(fr.rets)
	if m == nil {
		return nil
	}
	vals := make([]Value, n)
	for i := range keys {
		vals[i] = m.regs[keys[i]]
		delete(m.regs, keys[i])
	}
	return &retState{m, vals}
}

// assumeValExisting: references boxed in a dynamic value refer to existing objects.
func (x *Exec) assumeValExisting(st *State, v *Term) {
	tt := x.tt
	if v.Kind == KLit || v.hasBound {
		return
	}
	x.addFactRaw(tt.Implies(tt.Is("vslice", v), tt.Lt(tt.UF("birth$", "Int", x.sArr(tt.Sel("v-l", "vslice", "Slice", v))), st.clk)))
	x.addFactRaw(tt.Implies(tt.Is("vptr", v), tt.Lt(tt.UF("birth$", "Int", tt.Sel("v-p", "vptr", "Int", v)), st.clk)))
}

// recvTerm: receiver of the function under verification when it is a method of a validator type.
func (x *Exec) recvTerm(fr *Frame) *Term {
	fn := fr.fn
	if fn.Signature.Recv() == nil || len(fr.args) == 0 {
		return nil
	}
	if !x.isValidatorPtrType(fn.Params[0].Type()) {
		return nil
	}
	t, _ := fr.args[0].(*Term)
	return t
}

func (x *Exec) isLiveTrackedPtr(T types.Type) bool {
	if len(x.prog.Cons.ValidatorTypes) == 0 {
		return false
	}
	p, ok := T.Underlying().(*types.Pointer)
	if !ok {
		return false
	}
	tn := typeName(p.Elem())
	return x.isValidatorTypeName(tn) || tn == "Result"
}

// isRedeemFunc: the pool functions state their own liveness requirements.
func (x *Exec) isRedeemFunc(fn *ssa.Function) bool {
	return strings.HasPrefix(fn.Name(), "Redeem") || strings.HasPrefix(fn.Name(), "Borrow")
}

type recycledCell struct {
	obj   *Term
	heap  string
	idx   *Term
	stale *Term // the unknown content the recycled object arrived with
	cond  *Term
}

// checkInitComplete: no field of a recycled validator object that is still live at exit depends on the content the
// object had when it came out of the pool (two-copy non-interference: replacing the stale content by two different
// unknowns gives the same field values).
func (x *Exec) checkInitComplete(fr *Frame, st *State) {
	if len(x.recycledCells) == 0 {
		return
	}
	tt := x.tt
	m1, m2 := map[*Term]*Term{}, map[*Term]*Term{}
	for _, c := range x.recycledCells {
		m1[c.stale] = tt.Fresh("copyA", c.stale.Sort)
		m2[c.stale] = tt.Fresh("copyB", c.stale.Sort)
	}
	red := x.heap(st, "G$redeemed", arraySort("Int", "Bool"))
	seen := map[string]bool{}
	for _, c := range x.recycledCells {
		key := fmt.Sprintf("%s|%d", c.heap, c.idx.id)
		if seen[key] {
			continue
		}
		seen[key] = true
		cur, ok := st.heaps[c.heap]
		if !ok {
			continue
		}
		v := tt.Select(cur, c.idx)
		if n := x.interiorArrayLen(c.idx); n > 0 && strings.HasPrefix(c.heap, "A$") {
			// fixed-size array field: only its n cells exist
			var cells []*Term
			for k := int64(0); k < n; k++ {
				cells = append(cells, tt.Select(v, tt.IntLit(k)))
			}
			var eqs []*Term
			for _, cell := range cells {
				eqs = append(eqs, tt.Eq(tt.Subst(cell, m1), tt.Subst(cell, m2)))
			}
			pcA, pcB := tt.Subst(st.pc, m1), tt.Subst(st.pc, m2)
			live := tt.Not(tt.Select(red, c.obj))
			g := tt.Implies(tt.And(pcA, pcB, tt.Subst(c.cond, m1), tt.Subst(live, m1)), tt.And(eqs...))
			x.obligeNoAssume(fr, &State{pc: tt.True()}, "init-complete", c.heap, []string{"C04"}, g, "every cell of the array field of a recycled object is re-initialised")
			continue
		}
		va, vb := tt.Subst(v, m1), tt.Subst(v, m2)
		if va == vb {
			x.oblige(fr, st, "init-complete", c.heap, []string{"C04"}, tt.True(), "field of a recycled object does not depend on its previous content")
			continue
		}
		pcA, pcB := tt.Subst(st.pc, m1), tt.Subst(st.pc, m2)
		live := tt.Not(tt.Select(red, c.obj))
		g := tt.Implies(tt.And(pcA, pcB, tt.Subst(c.cond, m1), tt.Subst(live, m1)), tt.Eq(va, vb))
		o := x.obligeNoAssume(fr, &State{pc: tt.True()}, "init-complete", c.heap, []string{"C04"}, g, "field of a recycled object does not depend on the content it had in the pool (every field is re-initialised)")
		_ = o
	}
}

// interiorArrayLen: for an address fa$T$f(obj) of an array-typed field, the array length (0 otherwise).
func (x *Exec) interiorArrayLen(p *Term) int64 {
	if shapeOf(p) != shField {
		return 0
	}
	rest := p.Op[3:]
	i := strings.LastIndex(rest, "$")
	if i < 0 {
		return 0
	}
	tn, fn := rest[:i], rest[i+1:]
	var T types.Type
	func() {
		defer func() { recover() }()
		T = x.lookupType(tn)
	}()
	if T == nil {
		return 0
	}
	st, ok := T.Underlying().(*types.Struct)
	if !ok {
		return 0
	}
	for k := 0; k < st.NumFields(); k++ {
		if st.Field(k).Name() == fn {
			if a, ok := st.Field(k).Type().Underlying().(*types.Array); ok {
				return a.Len()
			}
		}
	}
	return 0
}

// learnTags: unconditional facts of the form tagOf(v) == <literal type id> refine later dispatch on v syntactically.
func (x *Exec) learnTags(f *Term) {
	if f.Kind != KApp {
		return
	}
	switch f.Op {
	case "and":
		for _, a := range f.Args {
			x.learnTags(a)
		}
	case "=>":
		// guard => facts: tags learned under a guard, usable where the path condition contains the guard
		x.learnGuarded(f.Args[0], f.Args[1])
	case "or":
		if len(f.Args) == 2 {
			// (p == nil) || facts   is   p != nil => facts
			for k := 0; k < 2; k++ {
				n, o := f.Args[k], f.Args[1-k]
				if n.Kind == KApp && n.Op == "=" && n.Args[0].Sort == "Int" {
					x.learnGuarded(x.tt.Not(n), o)
				}
			}
		}
		// isnil(v) || (tagOf(v) == T && ...): the tag is known whenever v is not nil
		if len(f.Args) == 2 {
			for k := 0; k < 2; k++ {
				n, o := f.Args[k], f.Args[1-k]
				if n.Kind == KApp && n.Op == "(_ is vnil)" {
					v := n.Args[0]
					var find func(t *Term)
					find = func(t *Term) {
						if t.Kind != KApp {
							return
						}
						if t.Op == "and" {
							for _, a := range t.Args {
								find(a)
							}
							return
						}
						if t.Op == "=" {
							a, b := t.Args[0], t.Args[1]
							if _, ok := intVal(a); ok {
								a, b = b, a
							}
							if _, ok := intVal(b); ok && a.Kind == KApp && a.Op == "tagOf" && a.Args[0] == v {
								if x.condTag == nil {
									x.condTag = map[int]*Term{}
								}
								x.condTag[v.id] = b
							}
						}
					}
					find(o)
				}
			}
		}
	case "=":
		a, b := f.Args[0], f.Args[1]
		if _, ok := intVal(a); ok {
			a, b = b, a
		}
		if _, ok := intVal(b); ok && a.Kind == KApp && a.Op == "tagOf" {
			if x.knownTag == nil {
				x.knownTag = map[int]*Term{}
			}
			x.knownTag[a.Args[0].id] = b
		}
	}
}

type guardedTag struct {
	guard *Term
	tag   *Term
	cond  bool // true: tag holds provided the value is not the nil interface
}

// learnGuarded: like learnTags, for facts that hold under a guard.
func (x *Exec) learnGuarded(guard, f *Term) {
	saveK, saveC := x.knownTag, x.condTag
	x.knownTag, x.condTag = map[int]*Term{}, map[int]*Term{}
	x.learnTags(f)
	if x.guarded == nil {
		x.guarded = map[int][]guardedTag{}
	}
	for id, t := range x.knownTag {
		x.guarded[id] = append(x.guarded[id], guardedTag{guard, t, false})
	}
	for id, t := range x.condTag {
		x.guarded[id] = append(x.guarded[id], guardedTag{guard, t, true})
	}
	x.knownTag, x.condTag = saveK, saveC
}

// pcHas: g is (syntactically) one of the conjuncts of the current path condition.
func (x *Exec) pcHas(g *Term) bool {
	pc := x.curPC
	if pc == nil {
		return false
	}
	if pc == g {
		return true
	}
	if pc.Kind == KApp && pc.Op == "and" {
		for _, a := range pc.Args {
			if a == g {
				return true
			}
		}
	}
	return false
}

// tagIfNonNil: a literal type id for v that is valid whenever v is not the nil interface (or unconditionally), if known.
func (x *Exec) tagIfNonNil(v *Term) (*Term, bool) {
	if t, ok := x.knownTag[v.id]; ok {
		return t, true
	}
	if t, ok := x.condTag[v.id]; ok {
		return t, true
	}
	for _, g := range x.guarded[v.id] {
		if x.pcHas(g.guard) {
			return g.tag, true
		}
	}
	return nil, false
}

func anyDefers(ss []*State) bool {
	for _, s := range ss {
		if len(s.defers) > 0 {
			return true
		}
	}
	return false
}


// ifaceContractsFor: interface contracts (iface T.m) of in-package interfaces that fn implements.
func (x *Exec) ifaceContractsFor(fn *ssa.Function) []*Contract {
	if fn.Signature.Recv() == nil || len(fn.Params) == 0 {
		return nil
	}
	var out []*Contract
	var keys []string
	for k, c := range x.prog.Cons.ByKey {
		if c.Iface {
			keys = append(keys, k)
		}
	}
	sort.Strings(keys)
	for _, k := range keys {
		i := strings.LastIndex(k, ".")
		if i < 0 || k[i+1:] != fn.Name() {
			continue
		}
		tn, ok := x.prog.Main.Pkg.Scope().Lookup(k[:i]).(*types.TypeName)
		if !ok {
			continue
		}
		it, ok := tn.Type().Underlying().(*types.Interface)
		if !ok {
			continue
		}
		if types.Implements(fn.Params[0].Type(), it) {
			out = append(out, x.prog.Cons.ByKey[k])
		}
	}
	return out
}

// ifaceEnv: environment for the clauses of interface contract c, seen from inside implementation fr.fn.
func (x *Exec) ifaceEnv(fr *Frame, c *Contract, st, old *State, results []Value) *Env {
	e := x.contractEnv(fr, st, old, results)
	fn := fr.fn
	names := c.Params
	if len(names) == 0 {
		names = []string{"recv"}
		for _, p := range fn.Params[1:] {
			names = append(names, p.Name())
		}
	}
	for i, n := range names {
		if i >= len(fn.Params) {
			break
		}
		if i == 0 {
			e.vars[n] = x.makeIface(fr.entry, fr.args[0], fn.Params[0].Type())
			e.vtypes[n] = tAny
			continue
		}
		e.vars[n] = fr.args[i]
		e.vtypes[n] = fn.Params[i].Type()
	}
	return e
}

func (x *Exec) refinesPre(fr *Frame, st *State) {
	if x.con == nil || x.quiet {
		return
	}
	for _, ic := range x.ifaceContractsFor(fr.fn) {
		n := len(x.facts)
		// side facts emitted once per term while evaluating these clauses are discarded with them: roll the seen-sets back
		sAddr, sLoaded, sJSON, sInvA, sChild, sNilMap := copyMap(x.addrSeen), copyMap(x.loadedSeen), copyMap(x.jsonSeen), copyMap(x.invAssumed), copyMap(x.childSeen), copyMap(x.nilMapSeen)
		sChildren := map[int][]*Term{}
		for k, v := range x.childrenOf {
			sChildren[k] = append([]*Term{}, v...)
		}
		sGlobals := len(x.globals)
		for _, c := range ic.Requires {
			env := x.ifaceEnv(fr, ic, st, fr.entry, nil)
			env.foldMode = 2
			x.addFactRaw(x.evalBool(env, c.Expr))
		}
		for _, c := range x.con.Requires {
			env := x.contractEnv(fr, st, fr.entry, nil)
			g := x.evalBool(env, c.Expr)
			x.obligeNoAssume(fr, st, "refines-pre", fmt.Sprintf("%s:%d", ic.Key, c.Ord), c.Tags, g, "precondition follows from the interface contract "+ic.Key+": "+c.Text)
		}
		x.truncFacts(n)
		x.addrSeen, x.loadedSeen, x.jsonSeen, x.invAssumed, x.childSeen, x.nilMapSeen, x.childrenOf = sAddr, sLoaded, sJSON, sInvA, sChild, sNilMap, sChildren
		x.globals = x.globals[:sGlobals]
	}
}

func (x *Exec) refinesPost(fr *Frame, st *State, results []Value, panicPath bool) {
	if x.con == nil || x.quiet {
		return
	}
	for _, ic := range x.ifaceContractsFor(fr.fn) {
		cls := ic.Ensures
		class := "refines-post"
		if panicPath {
			cls = ic.PanicEnsures
			class = "refines-panic"
		}
		for _, c := range cls {
			env := x.ifaceEnv(fr, ic, st, fr.entry, results)
			env.foldMode = 1
			g := x.evalBool(env, c.Expr)
			x.oblige(fr, st, class, fmt.Sprintf("%s:%d", ic.Key, c.Ord), c.Tags, g, "interface contract "+ic.Key+": "+c.Text)
		}
	}
}


// cutIteration: "unroll with cut". The loop is unrolled (so that indices and dynamic types stay concrete), but at the
// head of every iteration the invariant is proved, the heaps under the validation-effects discipline are abstracted
// to what the discipline guarantees (loopMix: cells kept for the callers hold their entry values, everything else is
// unknown) and the invariant is assumed again. Each iteration is then verified from the invariant alone, which keeps
// the queries of long unrolled loops small. Heaps outside the discipline are left exact.
func (x *Exec) cutIteration(fr *Frame, L *Loop, st *State, spec *LoopSpec, iter int, snap *seenSnap) {
	lname := fmt.Sprintf("loop%d", L.Ordinal)
	for _, in := range L.Header.Instrs {
		if p, ok := in.(*ssa.Phi); ok && p.Comment == "rangeindex" {
			st.names[fmt.Sprintf("idx%d", L.Ordinal)] = st.regs[p]
			x.nameTypes[fmt.Sprintf("idx%d", L.Ordinal)] = p.Type()
		}
	}
	x.curPC = st.pc
	savedLoopClk := x.curLoopClk
	x.curLoopClk = st.clk
	defer func() { x.curLoopClk = savedLoopClk }()
	for _, c := range spec.Invariants {
		env := x.contractEnv(fr, st, fr.entry, nil)
		g := x.evalBool(env, c.Expr)
		x.oblige(fr, st, "inv-cut", fmt.Sprintf("%s:%d@%d", lname, c.Ord, iter), c.Tags, g, c.Text)
	}
	if !x.topEffects() {
		return
	}
	for _, n := range x.effectHeaps(st) {
		srt := x.heapSorts[n]
		if srt == "" {
			continue
		}
		x.loopMix(fr, st, n, srt, fmt.Sprintf("%s.%d", lname, iter))
	}
	if snap != nil {
		// scope cut: what earlier iterations established is summarised by the invariant; their facts leave the
		// solver context (obligations already generated keep their own fact lists)
		if snap.clk == nil {
			snap.clk = st.clk
		}
		if fr.depth == 0 {
			savedPC, savedPos := x.curPC, x.curPos
			x.flushPanics(fr) // panic exits of the iteration just finished are checked with that iteration's facts
			x.curPC, x.curPos = savedPC, savedPos
		}
		x.scopeCut(snap)
	}
	st.clk = x.advanceClk(st)
	if snap != nil {
		x.addFactRaw(x.tt.Gt(st.clk, snap.clk)) // the clock chain of the dropped iterations
	}
	for _, c := range spec.Invariants {
		env := x.contractEnv(fr, st, fr.entry, nil)
		x.addFact(x.evalBool(env, c.Expr))
	}
}

type seenSnap struct {
	nfacts                                        int
	addr, loaded, json                            map[int]bool
	invA, child, nilMap                           map[string]bool
	children                                      map[int][]*Term
	globals                                       int
	clk                                           *Term
}

func (x *Exec) snapSeen() *seenSnap {
	sn := &seenSnap{nfacts: len(x.facts), addr: copyMap(x.addrSeen), loaded: copyMap(x.loadedSeen), json: copyMap(x.jsonSeen),
		invA: copyMap(x.invAssumed), child: copyMap(x.childSeen), nilMap: copyMap(x.nilMapSeen), children: map[int][]*Term{}, globals: len(x.globals)}
	for k, v := range x.childrenOf {
		sn.children[k] = append([]*Term{}, v...)
	}
	return sn
}

// scopeCut drops the facts added since the snapshot (new backing array: fact lists held by obligations stay intact)
// and rolls the once-per-term seen-sets back so that side facts are emitted again when needed.
func (x *Exec) scopeCut(sn *seenSnap) {
	nf := make([]*Term, sn.nfacts, sn.nfacts+512)
	copy(nf, x.facts[:sn.nfacts])
	for i := sn.nfacts; i < len(x.facts); i++ {
		delete(x.oblFacts, i)
		delete(x.permIdx, i)
	}
	x.facts = nf
	x.epoch++
	x.addrSeen, x.loadedSeen, x.jsonSeen = copyMap(sn.addr), copyMap(sn.loaded), copyMap(sn.json)
	x.invAssumed, x.childSeen, x.nilMapSeen = copyMap(sn.invA), copyMap(sn.child), copyMap(sn.nilMap)
	x.childrenOf = map[int][]*Term{}
	for k, v := range sn.children {
		x.childrenOf[k] = append([]*Term{}, v...)
	}
	x.globals = x.globals[:sn.globals]
}


func (x *Exec) retNilTerm(vals []Value) *Term {
	if len(vals) != 1 {
		return nil
	}
	t, ok := vals[0].(*Term)
	if !ok {
		return nil
	}
	switch t.Sort {
	case "Int":
		return x.tt.Eq(t, x.tt.IntLit(0))
	case "Val":
		return x.tt.Is("vnil", t)
	}
	return nil
}


// loopHasEarlyExit: some block other than the header leaves the loop (break / return inside the body).
func loopHasEarlyExit(L *Loop) bool {
	for b := range L.Blocks {
		if b == L.Header {
			continue
		}
		for _, sc := range b.Succs {
			if !L.Blocks[sc] {
				return true
			}
		}
	}
	return false
}
