package main

import (
	"bytes"
	"context"
	"fmt"
	"go/types"
	"math/big"
	"os"
	"os/exec"
	"path/filepath"
	"sort"
	"strings"
	"sync"
	"time"
)

type OblResult struct {
	O       *Obligation
	Status  string // "unsat" (discharged), "sat", "unknown", "builtin", "error"
	Solver  string
	Sec     float64
	Model   string
	Raw     string
	Script  string // path of standalone script (kept on failure)
	FuncKey string
}

var preludeDefined = map[string]bool{"wfVal": true, "tagOf": true, "kindOf": true, "kindOfTid": true, "go_quo": true, "go_rem": true, "sbv2int$": true}

func bigInt(n int64) *big.Int { return big.NewInt(n) }

func (x *Exec) wfValDef() string {
	I := func(n int64) string {
		if x.bv {
			return x.tt.BVLit(bigInt(n), 64).Op
		}
		if n < 0 {
			return fmt.Sprintf("(- %d)", -n)
		}
		return fmt.Sprintf("%d", n)
	}
	le := "<="
	ule := "<="
	if x.bv {
		le, ule = "bvsle", "bvule"
	}
	rng := func(sel string, lo, hi int64, unsigned bool) string {
		if unsigned {
			return fmt.Sprintf("(%s (%s v) %s)", ule, sel, I(hi))
		}
		return fmt.Sprintf("(and (%s %s (%s v)) (%s (%s v) %s))", le, I(lo), sel, le, sel, I(hi))
	}
	kEq := func(sel string, k int64) string { return fmt.Sprintf("(= (kindOfTid (%s v)) %s)", sel, I(k)) }
	kIn := func(sel string, lo, hi int64) string {
		return fmt.Sprintf("(and (%s %s (kindOfTid (%s v))) (%s (kindOfTid (%s v)) %s))", ule, I(lo), sel, ule, sel, I(hi))
	}
	var sb strings.Builder
	sb.WriteString("(define-fun wfVal ((v Val)) Bool (and (or ((_ is vnil) v) (> (tagOf v) 0))\n")
	sb.WriteString(" (=> ((_ is vbool) v) " + kEq("v-btid", 1) + ")\n")
	sb.WriteString(" (=> ((_ is vint) v) (and " + kIn("v-itid", 2, 6) + "\n")
	sb.WriteString("   (=> " + kEq("v-itid", 3) + " " + rng("v-i", -128, 127, false) + ")\n")
	sb.WriteString("   (=> " + kEq("v-itid", 4) + " " + rng("v-i", -32768, 32767, false) + ")\n")
	sb.WriteString("   (=> " + kEq("v-itid", 5) + " " + rng("v-i", -2147483648, 2147483647, false) + ")\n")
	if !x.bv {
		sb.WriteString("   (and (<= (- 9223372036854775808) (v-i v)) (<= (v-i v) 9223372036854775807))\n")
	}
	sb.WriteString(" ))\n")
	sb.WriteString(" (=> ((_ is vuint) v) (and " + kIn("v-utid", 7, 12) + "\n")
	sb.WriteString("   (=> " + kEq("v-utid", 8) + " " + rng("v-u", 0, 255, true) + ")\n")
	sb.WriteString("   (=> " + kEq("v-utid", 9) + " " + rng("v-u", 0, 65535, true) + ")\n")
	sb.WriteString("   (=> " + kEq("v-utid", 10) + " " + rng("v-u", 0, 4294967295, true) + ")\n")
	if !x.bv {
		sb.WriteString("   (and (<= 0 (v-u v)) (<= (v-u v) 18446744073709551615))\n")
	}
	sb.WriteString(" ))\n")
	sb.WriteString(" (=> ((_ is vf64) v) " + kEq("v-ftid", 14) + ")\n")
	sb.WriteString(" (=> ((_ is vf32) v) " + kEq("v-gtid", 13) + ")\n")
	sb.WriteString(" (=> ((_ is vstr) v) " + kEq("v-stid", 24) + ")\n")
	sb.WriteString(" (=> ((_ is vptr) v) (and (>= (v-p v) 0) (or " + kEq("v-ptid", 18) + " " + kEq("v-ptid", 19) + " " + kEq("v-ptid", 21) + " " + kEq("v-ptid", 22) + " " + kEq("v-ptid", 26) + ")))\n")
	sb.WriteString(" (=> ((_ is vslice) v) (and " + kEq("v-ltid", 23) + " (>= (s-arr (v-l v)) 0) (" + le + " " + I(0) + " (s-len (v-l v))) (" + le + " (s-len (v-l v)) (s-cap (v-l v))) (" + le + " (s-cap (v-l v)) " + I(1<<40) + ")))\n")
	sb.WriteString(" (=> ((_ is vother) v) (or " + kEq("v-otid", 17) + " " + kEq("v-otid", 25) + " " + kEq("v-otid", 15) + " " + kEq("v-otid", 16) + "))\n")
	sb.WriteString("))\n")
	return sb.String()
}

// globalAxioms: facts about type ids etc. known at emission time.
func (x *Exec) globalAxioms(em *Emitter) string {
	var sb strings.Builder
	for i, T := range x.prog.tidList {
		fmt.Fprintf(&sb, "(assert (= (kindOfTid %d) %s))\n", i+1, x.GoInt(int64(kindOfType(T))).Op)
	}
	sb.WriteString("(assert (= (kindOfTid 0) " + x.GoInt(0).Op + "))\n")
	if len(x.strLits) > 1 {
		var ls []string
		for n := range x.strLits {
			ls = append(ls, quoteSym(n))
		}
		sort.Strings(ls)
		sb.WriteString("(assert (distinct " + strings.Join(ls, " ") + "))\n")
	}
	var names []string
	for n := range x.ifaceUsed {
		names = append(names, n)
	}
	sort.Strings(names)
	for _, n := range names {
		it := x.ifaceUsed[n]
		if em != nil && !em.decl["f:"+n] {
			// (a stand-alone script for an early obligation may not mention the predicate yet)
			em.decl["f:"+n] = true
			fmt.Fprintf(&sb, "(declare-fun %s (Int) Bool)\n", quoteSym(n))
		}
		for i, T := range x.prog.tidList {
			fmt.Fprintf(&sb, "(assert (= (%s %d) %v))\n", quoteSym(n), i+1, types.Implements(T, it))
		}
	}
	return sb.String()
}

func (x *Exec) strLitTerms() []*Term {
	var out []*Term
	for n := range x.strLits {
		out = append(out, x.tt.Sym(n, "Str"))
	}
	return out
}

// allTerms used by the VC
func (x *Exec) vcTerms() []*Term {
	var ts []*Term
	ts = append(ts, x.facts...)
	lastEpoch := -1
	for i := len(x.obls) - 1; i >= 0; i-- {
		// the longest fact list of every epoch (obligations are in generation order)
		o := x.obls[i]
		if o.Epoch != lastEpoch && o.Epoch != x.epoch {
			ts = append(ts, o.Facts...)
			lastEpoch = o.Epoch
		}
	}
	for _, o := range x.obls {
		ts = append(ts, o.PC, o.Goal)
	}
	return ts
}

func (x *Exec) header(forSolver string) string {
	var sb strings.Builder
	if forSolver == "cvc5" {
		sb.WriteString("(set-logic ALL)\n")
	}
	sb.WriteString(x.prelude())
	if x.bv {
		sb.WriteString("(declare-fun |sbv2int$| ((_ BitVec 64)) Int)\n")
	}
	sb.WriteString(x.wfValDef())
	return sb.String()
}

// incrementalScript: one script with all obligations in order.
func (x *Exec) incrementalScript(timeoutMs int) (string, []*Obligation) {
	return x.incrementalScriptFor(timeoutMs, "")
}

func (x *Exec) incrementalScriptFor(timeoutMs int, prop string) (string, []*Obligation) {
	return x.incrementalScriptFor2(timeoutMs, prop, "")
}

func (x *Exec) incrementalScriptFor2(timeoutMs int, prop, class string) (string, []*Obligation) {
	return x.incrementalScriptFor3(timeoutMs, prop, class, nil)
}

func (x *Exec) incrementalScriptFor3(timeoutMs int, prop, class string, only map[string]bool) (string, []*Obligation) {
	return x.incrementalScriptFor4(timeoutMs, prop, class, only, nil)
}

func (x *Exec) incrementalScriptFor4(timeoutMs int, prop, class string, only, skip map[string]bool) (string, []*Obligation) {
	var sb strings.Builder
	sb.WriteString(fmt.Sprintf("(set-option :timeout %d)\n", timeoutMs))
	sb.WriteString(x.header("z3"))
	ts := x.vcTerms()
	em := NewEmitter(x.tt, &sb)
	em.decl["f:wfVal"] = true
	for n := range preludeDefined {
		em.decl["f:"+n] = true
		em.decl["s:"+n] = true
	}
	em.Declare(append(append([]*Term{}, ts...), x.strLitTerms()...))
	sb.WriteString(x.globalAxioms(em))
	em.Define(ts)
	var order []*Obligation
	nf := 0
	curEpoch := 0
	sb.WriteString("(push 1)\n")
	for _, o := range x.obls {
		if o.Builtin {
			continue
		}
		if prop != "" && !hasTag(o.Tags, prop) {
			continue
		}
		if class != "" && o.Class != class {
			continue
		}
		if skip != nil && skip[o.Name] && o.KFKey == "" {
			continue
		}
		if only != nil && !only[o.Name] && o.KFKey == "" && !only["kf:"+stripOrdinal(o.Name)] && !only["kf:"+o.Name] {
			continue
		}
		if o.Epoch != curEpoch {
			// facts are scoped: a new epoch starts from its own fact list
			sb.WriteString("(pop 1)\n(push 1)\n")
			curEpoch = o.Epoch
			nf = 0
		}
		for ; nf < len(o.Facts); nf++ {
			sb.WriteString("(assert " + em.Str(o.Facts[nf]) + ")\n")
		}
		sb.WriteString("(push 1)\n")
		sb.WriteString("(assert (not " + em.Str(x.tt.Implies(o.PC, o.Goal)) + "))\n")
		sb.WriteString("(check-sat)\n(pop 1)\n")
		order = append(order, o)
	}
	return sb.String(), order
}

// standaloneScript for one obligation.
func (x *Exec) standaloneScript(o *Obligation, solver string, model bool) string {
	var sb strings.Builder
	sb.WriteString("; obligation: " + o.Name + "\n; " + o.Text + "\n")
	if model {
		if solver == "cvc5" {
			sb.WriteString("(set-option :produce-models true)\n")
		} else {
			sb.WriteString("(set-option :model.compact true)\n")
		}
	}
	sb.WriteString(x.header(solver))
	neg := x.tt.Not(x.tt.Implies(o.PC, o.Goal))
	ts := append(append([]*Term{}, o.Facts...), neg)
	em := NewEmitter(x.tt, &sb)
	for n := range preludeDefined {
		em.decl["f:"+n] = true
		em.decl["s:"+n] = true
	}
	em.Declare(append(append([]*Term{}, ts...), x.strLitTerms()...))
	sb.WriteString(x.globalAxioms(em))
	em.Define(ts)
	for _, f := range o.Facts {
		sb.WriteString("(assert " + em.Str(f) + ")\n")
	}
	sb.WriteString("(assert " + em.Str(neg) + ")\n")
	sb.WriteString("(check-sat)\n")
	if model {
		sb.WriteString("(get-model)\n")
	}
	for _, t := range x.evalTerms {
		sb.WriteString("(get-value (" + em.Str(t) + "))\n")
	}
	return sb.String()
}

type solverSpec struct {
	name string
	args func(file string, sec int) []string
}

var solvers = map[string]solverSpec{
	"z3-new": {"z3-new", func(f string, sec int) []string { return []string{fmt.Sprintf("-T:%d", sec), f} }},
	"z3":     {"z3", func(f string, sec int) []string { return []string{fmt.Sprintf("-T:%d", sec), f} }},
	"cvc5":   {"cvc5", func(f string, sec int) []string { return []string{fmt.Sprintf("--tlimit=%d", sec*1000), "--incremental", f} }},
}

func runSolver(name, file string, sec int) (string, float64) {
	return runSolverCtx(context.Background(), name, file, sec)
}

func runSolverCtx(parent context.Context, name, file string, sec int) (string, float64) {
	sp := solvers[name]
	ctx, cancel := context.WithTimeout(parent, time.Duration(sec+5)*time.Second)
	defer cancel()
	cmd := exec.CommandContext(ctx, sp.name, sp.args(file, sec)...)
	var out bytes.Buffer
	cmd.Stdout = &out
	cmd.Stderr = &out
	t0 := time.Now()
	cmd.Run()
	return out.String(), time.Since(t0).Seconds()
}

func firstStatus(out string) string {
	for _, l := range strings.Split(out, "\n") {
		l = strings.TrimSpace(l)
		switch l {
		case "sat", "unsat", "unknown", "timeout":
			if l == "timeout" {
				return "unknown"
			}
			return l
		}
		if strings.HasPrefix(l, "(error") {
			return "error"
		}
	}
	return "unknown"
}

type SolveOpts struct {
	Dir        string // scratch dir
	QuickMs    int    // per-query timeout in the incremental run
	FallbackS  int    // timeout for standalone fall-back runs
	Thorough   bool   // run every solver on every obligation
	KeepAll    bool
	Skip       map[string]bool // obligations not to check (known unproven)
	Only       map[string]bool // when set: only obligations with these names (plus known-finding carve-outs) are checked
	ClassOnly  string // when set: only obligations of this class are checked
	Prop       string // when set: only obligations tagged with this property are checked (the others are assumed)
}

// Solve discharges the obligations of x. Returns results in obligation order.
func (x *Exec) Solve(opts SolveOpts) []*OblResult {
	r, _ := x.SolveFiltered(opts)
	return r
}

func (x *Exec) SolveFiltered(opts SolveOpts) ([]*OblResult, bool) {
	key := funcKey(x.fn)
	safe := strings.NewReplacer("/", "_", "*", "p", "(", "", ")", "", "$", "_", " ", "").Replace(key)
	var results []*OblResult
	byObl := map[*Obligation]*OblResult{}
	for _, o := range x.obls {
		r := &OblResult{O: o, FuncKey: key}
		if o.Builtin {
			r.Status, r.Solver = "unsat", "builtin"
		}
		results = append(results, r)
		byObl[o] = r
	}
	script, order := x.incrementalScriptFor4(opts.QuickMs, opts.Prop, opts.ClassOnly, opts.Only, opts.Skip)
	if len(order) == 0 {
		return results, false
	}
	file := filepath.Join(opts.Dir, safe+".smt2")
	os.WriteFile(file, []byte(script), 0o644)
	budget := len(order)*opts.QuickMs/1000 + 30
	out, sec := runSolver("z3-new", file, budget)
	var sts []string
	vacuous := false
	lines := strings.Split(out, "\n")
	for li, l := range lines {
		l = strings.TrimSpace(l)
		if l == "vacuity" {
			if li+1 < len(lines) && strings.TrimSpace(lines[li+1]) == "unsat" {
				vacuous = true
			}
			break
		}
		switch l {
		case "sat", "unsat", "unknown", "timeout":
			sts = append(sts, l)
		default:
			if strings.HasPrefix(l, "(error") && (strings.Contains(l, "canceled") || strings.Contains(l, "timeout")) {
				sts = append(sts, "unknown")
			} else if strings.HasPrefix(l, "(error") {
				sts = append(sts, "error:"+l)
			}
		}
	}
	per := sec / float64(len(order))
	hasErr := false
	for _, l := range strings.Split(out, "\n") {
		if strings.Contains(l, "(error") && !strings.Contains(l, "canceled") && !strings.Contains(l, "timeout") {
			hasErr = true
		}
	}
	for i, o := range order {
		r := byObl[o]
		r.Solver = "z3-new"
		r.Sec = per
		if hasErr {
			r.Status = "error"
			r.Raw = out
			if len(r.Raw) > 2000 {
				r.Raw = r.Raw[:2000]
			}
			continue
		}
		if i < len(sts) {
			r.Status = sts[i]
			if r.Status == "timeout" {
				r.Status = "unknown"
			}
		} else {
			r.Status = "unknown"
		}
	}
	// fall-back for non-unsat
	var wg sync.WaitGroup
	for i, o := range order {
		r := byObl[o]
		if r.Status == "unsat" && !opts.Thorough {
			continue
		}
		if r.Status == "error" {
			continue
		}
		if isFalse(o.Goal) && !opts.Thorough {
			// false by construction: dischargeable only if the path is infeasible, which the incremental run
			// would have found; no point in racing three solvers on it
			continue
		}
		wg.Add(1)
		go func(i int, o *Obligation, r *OblResult) {
			defer wg.Done()
			solverSem <- struct{}{}
			defer func() { <-solverSem }()
			x.fallback(opts, safe, i, o, r)
		}(i, o, r)
	}
	wg.Wait()
	vacuous = x.vacuityCheck(opts, safe)
	return results, vacuous
}

// vacuityCheck: the assumptions (requires, assumed contracts, typing facts - not the asserted-then-assumed obligations)
// must be satisfiable, otherwise every obligation holds vacuously.
func (x *Exec) vacuityCheck(opts SolveOpts, safe string) bool {
	var ts []*Term
	for i, f := range x.facts {
		if !x.oblFacts[i] {
			ts = append(ts, f)
		}
	}
	var sb strings.Builder
	sb.WriteString("(set-option :timeout 4000)\n")
	sb.WriteString(x.header("z3"))
	em := NewEmitter(x.tt, &sb)
	for n := range preludeDefined {
		em.decl["f:"+n] = true
		em.decl["s:"+n] = true
	}
	emitMu.Lock()
	em.Declare(append(append([]*Term{}, ts...), x.strLitTerms()...))
	sb.WriteString(x.globalAxioms(em))
	em.Define(ts)
	for _, f := range ts {
		sb.WriteString("(assert " + em.Str(f) + ")\n")
	}
	emitMu.Unlock()
	sb.WriteString("(check-sat)\n")
	f := filepath.Join(opts.Dir, safe+".vacuity.smt2")
	os.WriteFile(f, []byte(sb.String()), 0o644)
	out, _ := runSolver("z3-new", f, 6)
	return firstStatus(out) == "unsat"
}

var solverSem = make(chan struct{}, 14)
var emitMu sync.Mutex

func (x *Exec) fallback(opts SolveOpts, safe string, idx int, o *Obligation, r *OblResult) {
	type res struct {
		solver, status, out string
		sec                 float64
	}
	var list []string
	if opts.Thorough {
		list = []string{"z3-new", "z3", "cvc5"}
	} else {
		list = []string{"z3-new", "z3", "cvc5"}
	}
	ch := make(chan res, len(list))
	files := map[string]string{}
	emitMu.Lock()
	for _, s := range list {
		kind := s
		if s != "cvc5" {
			kind = "z3"
		}
		f := filepath.Join(opts.Dir, fmt.Sprintf("%s.%d.%s.smt2", safe, idx, kind))
		if _, ok := files[kind]; !ok {
			if o.RetNil != nil && kind == "z3" {
				x.evalTerms = []*Term{o.RetNil}
			}
			os.WriteFile(f, []byte(x.standaloneScript(o, kind, true)), 0o644)
			x.evalTerms = nil
			files[kind] = f
		}
	}
	emitMu.Unlock()
	ctx, cancel := context.WithCancel(context.Background())
	defer cancel()
	for _, s := range list {
		go func(s string) {
			kind := s
			if s != "cvc5" {
				kind = "z3"
			}
			out, sec := runSolverCtx(ctx, s, files[kind], opts.FallbackS)
			ch <- res{s, firstStatus(out), out, sec}
		}(s)
	}
	var unsatBy, satBy []string
	var model string
	var tot float64
	for range list {
		rr := <-ch
		tot += rr.sec
		decisive := false
		switch rr.status {
		case "unsat":
			unsatBy = append(unsatBy, rr.solver)
			decisive = true
		case "sat":
			satBy = append(satBy, rr.solver)
			if model == "" || rr.solver == "z3-new" {
				model = rr.out
			}
			decisive = true
		}
		if !opts.Thorough && decisive {
			// first decisive answer wins in quick mode
			cancel()
			break
		}
	}
	r.Sec += tot
	switch {
	case len(unsatBy) > 0 && len(satBy) > 0:
		r.Status = "error"
		r.Raw = fmt.Sprintf("solver disagreement: unsat by %v, sat by %v", unsatBy, satBy)
	case len(unsatBy) > 0:
		r.Status = "unsat"
		r.Solver = strings.Join(unsatBy, "+")
	case len(satBy) > 0:
		r.Status = "sat"
		r.Solver = strings.Join(satBy, "+")
		r.Model = model
		r.Script = files["z3"]
	default:
		r.Status = "unknown"
		r.Script = files["z3"]
	}
}

// FindVacuity: binary search for the shortest prefix of facts that is unsatisfiable; returns its last fact.
func (x *Exec) FindVacuity(dir string) string {
	check := func(n int) bool {
		var sb strings.Builder
		sb.WriteString(x.header("z3"))
		ts := append([]*Term{}, x.facts[:n]...)
		em := NewEmitter(x.tt, &sb)
		for nme := range preludeDefined {
			em.decl["f:"+nme] = true
			em.decl["s:"+nme] = true
		}
		em.Declare(append(append([]*Term{}, ts...), x.strLitTerms()...))
		sb.WriteString(x.globalAxioms(em))
		em.Define(ts)
		for _, f := range ts {
			sb.WriteString("(assert " + em.Str(f) + ")\n")
		}
		sb.WriteString("(check-sat)\n")
		f := filepath.Join(dir, "vac.smt2")
		os.WriteFile(f, []byte(sb.String()), 0o644)
		out, _ := runSolver("z3-new", f, 20)
		return firstStatus(out) == "unsat"
	}
	if !check(len(x.facts)) {
		return "facts are satisfiable (or unknown)"
	}
	lo, hi := 0, len(x.facts)
	for lo < hi {
		mid := (lo + hi) / 2
		if check(mid) {
			hi = mid
		} else {
			lo = mid + 1
		}
	}
	if lo == 0 {
		return "global axioms are unsatisfiable"
	}
	return fmt.Sprintf("fact #%d makes the assumptions unsatisfiable: %s", lo, x.facts[lo-1])
}

// quickUnsat: is (facts so far) && extra unsatisfiable? Used to prune dispatch branches semantically.
// Only "unsat" answers are used (pruning an infeasible branch is sound; keeping a feasible-looking one is always sound).
func (x *Exec) quickUnsat(extra *Term) bool {
	if x.scratch == "" {
		d, err := os.MkdirTemp("/var/tmp", "govc-q-")
		if err != nil {
			return false
		}
		x.scratch = d
	}
	var ts []*Term
	ts = append(ts, x.facts...)
	ts = append(ts, extra)
	var sb strings.Builder
	sb.WriteString("(set-option :timeout 1500)\n")
	sb.WriteString(x.header("z3"))
	em := NewEmitter(x.tt, &sb)
	for n := range preludeDefined {
		em.decl["f:"+n] = true
		em.decl["s:"+n] = true
	}
	em.Declare(append(append([]*Term{}, ts...), x.strLitTerms()...))
	sb.WriteString(x.globalAxioms(em))
	em.Define(ts)
	for _, f := range ts {
		sb.WriteString("(assert " + em.Str(f) + ")\n")
	}
	sb.WriteString("(check-sat)\n")
	x.nQuick++
	f := filepath.Join(x.scratch, fmt.Sprintf("q%d.smt2", x.nQuick))
	os.WriteFile(f, []byte(sb.String()), 0o644)
	out, _ := runSolver("z3-new", f, 3)
	os.Remove(f)
	return firstStatus(out) == "unsat"
}


// explain: for a failed obligation whose goal is a conjunction, report the status of each conjunct (debugging aid).
func (x *Exec) explain(o *Obligation, dir string) {
	var conj []*Term
	var flat func(t *Term, hyp *Term)
	flat = func(t *Term, hyp *Term) {
		if t.Kind == KApp && t.Op == "and" {
			for _, a := range t.Args {
				flat(a, hyp)
			}
			return
		}
		if t.Kind == KApp && t.Op == "=>" && len(t.Args) == 2 && t.Args[1].Kind == KApp && t.Args[1].Op == "and" {
			for _, a := range t.Args[1].Args {
				flat(x.tt.Implies(t.Args[0], a), hyp)
			}
			return
		}
		conj = append(conj, t)
	}
	flat(o.Goal, nil)
	if len(conj) < 2 && os.Getenv("GOVC_EXPLAIN") != "2" {
		return
	}
	for i, c := range conj {
		o2 := *o
		o2.Goal = c
		emitMu.Lock()
		sc := x.standaloneScript(&o2, "z3", false)
		emitMu.Unlock()
		f := filepath.Join(dir, fmt.Sprintf("explain.%d.smt2", i))
		os.WriteFile(f, []byte(sc), 0o644)
		out, sec := runSolver("z3-new", f, 10)
		st := firstStatus(out)
		if st == "sat" && os.Getenv("GOVC_EXPLAIN") == "2" {
			// values of the sub-terms of the failing conjunct in the counter-model
			var subs []*Term
			seen := map[int]bool{}
			var walk func(t *Term, d int)
			walk = func(t *Term, d int) {
				if seen[t.id] || t.hasBound || len(subs) > 60 || d > 6 {
					return
				}
				seen[t.id] = true
				if t.Kind == KApp {
					subs = append(subs, t)
					for _, a := range t.Args {
						walk(a, d+1)
					}
				}
			}
			walk(c, 0)
			x.evalTerms = subs
			emitMu.Lock()
			sc2 := x.standaloneScript(&o2, "z3", false)
			emitMu.Unlock()
			x.evalTerms = nil
			f2 := filepath.Join(dir, fmt.Sprintf("explain.%d.eval.smt2", i))
			os.WriteFile(f2, []byte(sc2), 0o644)
			out2, _ := runSolver("z3-new", f2, 20)
			lines := strings.Split(out2, "\n")
			vals := []string{}
			for _, l := range lines[1:] {
				if strings.HasPrefix(l, "((") {
					// value is the last token(s)
					vals = append(vals, l)
				}
			}
			for k, t := range subs {
				txt := t.String()
				if len(txt) > 160 {
					txt = txt[:160] + "..."
				}
				v := "?"
				if k < len(vals) {
					v = vals[k]
					if j := strings.LastIndex(v, " "); j >= 0 && len(v) > 200 {
						v = "..." + v[len(v)-60:]
					}
					if len(v) > 60 {
						v = "..." + v[len(v)-60:]
					}
				}
				fmt.Printf("            %s  :=  %s\n", txt, v)
			}
		}
		if st != "unsat" {
			txt := c.String()
			if len(txt) > 600 {
				txt = txt[:600] + "..."
			}
			fmt.Printf("        conjunct %d/%d: %s (%.1fs): %s\n", i+1, len(conj), st, sec, txt)
		}
	}
}
