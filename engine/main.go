package main

import (
	"flag"
	"runtime/pprof"
	"fmt"
	"os"
	"sort"
	"strings"
	"time"
)

func main() {
	if pf := os.Getenv("GOVC_PROF"); pf != "" {
		f, _ := os.Create(pf)
		pprof.StartCPUProfile(f)
		go func() {
			time.Sleep(45 * time.Second)
			pprof.StopCPUProfile()
			f.Close()
			os.Exit(3)
		}()
	}
	if len(os.Args) < 2 {
		fmt.Fprintln(os.Stderr, "usage: govc <vc|check|list> ...")
		os.Exit(2)
	}
	switch os.Args[1] {
	case "vc":
		cmdVC(os.Args[2:])
	case "check":
		os.Exit(cmdCheck(os.Args[2:]))
	case "list":
		cmdList(os.Args[2:])
	case "sweep":
		cmdSweep(os.Args[2:])
	default:
		fmt.Fprintln(os.Stderr, "unknown command", os.Args[1])
		os.Exit(2)
	}
}

func verifDir() string {
	if d := os.Getenv("VERIF_DIR"); d != "" {
		return d
	}
	return "/verif"
}

func repoDir() string {
	if d := os.Getenv("VERIF_REPO"); d != "" {
		return d
	}
	return "/repo"
}

func loadAll() (*Prog, error) {
	t0 := time.Now()
	p, err := LoadProg(repoDir(), "verif")
	if err != nil {
		return nil, err
	}
	files := []string{repoDir() + "/contracts_verif.go"}
	ents, _ := os.ReadDir(verifDir() + "/spec")
	for _, e := range ents {
		if strings.HasSuffix(e.Name(), ".gvc") {
			files = append(files, verifDir()+"/spec/"+e.Name())
		}
	}
	var have []string
	for _, f := range files {
		if _, err := os.Stat(f); err == nil {
			have = append(have, f)
		}
	}
	cs, err := ParseContracts(have...)
	if err != nil {
		return nil, err
	}
	p.Cons = cs
	p.LoadSec = time.Since(t0).Seconds()
	return p, nil
}

func cmdList(args []string) {
	p, err := loadAll()
	if err != nil {
		fmt.Fprintln(os.Stderr, err)
		os.Exit(2)
	}
	for _, fn := range p.MainFuncs() {
		lf := p.LoopsOf(fn)
		fmt.Printf("%-70s blocks=%d loops=%d astloops=%d\n", funcKey(fn), len(fn.Blocks), len(lf.Loops), lf.ASTLoops)
	}
}

func cmdVC(args []string) {
	fs := flag.NewFlagSet("vc", flag.ExitOnError)
	dump := fs.Bool("dump", false, "print obligations' formulas")
	keep := fs.String("dir", "", "scratch dir to keep scripts")
	fs.Parse(args)
	p, err := loadAll()
	if err != nil {
		fmt.Fprintln(os.Stderr, err)
		os.Exit(2)
	}
	dir := *keep
	if dir == "" {
		dir, _ = os.MkdirTemp("/var/tmp", "govc-")
		defer os.RemoveAll(dir)
	} else {
		os.MkdirAll(dir, 0o755)
	}
	for _, key := range fs.Args() {
		fn := p.Funcs[key]
		if fn == nil {
			fmt.Println("no such function:", key)
			continue
		}
		x := NewExec(p, fn)
		t0 := time.Now()
		if err := x.Run(); err != nil {
			fmt.Println("ERROR", key, err)
			continue
		}
		fmt.Printf("== %s: %d obligations, %d facts, vcgen %.2fs bv=%v\n", key, len(x.obls), len(x.facts), time.Since(t0).Seconds(), x.bv)
		qms, fbs := 2000, 8
		if v := os.Getenv("GOVC_QMS"); v != "" {
			fmt.Sscanf(v, "%d", &qms)
		}
		if v := os.Getenv("GOVC_FBS"); v != "" {
			fmt.Sscanf(v, "%d", &fbs)
		}
		rs, vac := x.SolveFiltered(SolveOpts{Dir: dir, QuickMs: qms, FallbackS: fbs})
		if vac {
			fmt.Println("  !! VACUOUS: assumptions are unsatisfiable")
			fmt.Println("     ", x.FindVacuity(dir))
		}
		cnt := map[string]int{}
		for _, r := range rs {
			cnt[r.Status]++
		}
		fmt.Printf("   summary: %v\n", cnt)
		for _, r := range rs {
			if os.Getenv("GOVC_ALL") == "" && r.Status == "unsat" {
				continue
			}
			fmt.Printf("  %-8s %-8s %6.2fs %s  [%s] %s\n", r.Status, r.Solver, r.Sec, r.O.Name, r.O.Pos, r.O.Text)
			if *dump {
				fmt.Printf("      pc: %s\n      goal: %s\n", r.O.PC, r.O.Goal)
			}
			if r.Status == "error" {
				fmt.Println("     ", r.Raw)
			}
			if r.Status == "sat" && *dump {
				fmt.Println(r.Model)
			}
			if r.Status != "unsat" && os.Getenv("GOVC_EXPLAIN") != "" {
				x.explain(r.O, dir)
			}
		}
		var notes []string
		for n, c := range x.notes {
			notes = append(notes, fmt.Sprintf("%s ×%d", n, c))
		}
		sort.Strings(notes)
		for _, n := range notes {
			fmt.Println("  note:", n)
		}
		for k, c := range x.uncontracted {
			fmt.Printf("  uncontracted: %s ×%d\n", k, c)
		}
	}
}

