package main

import (
	"flag"
	"runtime/pprof"
	"fmt"
	"os"
	"sort"
	"path/filepath"
	"strings"
	"time"
)

func main() {
	if pf := os.Getenv("GOVC_PROF"); pf != "" {
		f, _ := os.Create(pf)
		pprof.StartCPUProfile(f)
		go func() {
			time.Sleep(45 * time.Second)
			pprof.StopCPUProfile()
			f.Close()
			os.Exit(3)
		}()
	}
	if len(os.Args) < 2 {
		fmt.Fprintln(os.Stderr, "usage: govc <vc|check|list> ...")
		os.Exit(2)
	}
	switch os.Args[1] {
	case "vc":
		cmdVC(os.Args[2:])
	case "check":
		os.Exit(cmdCheck(os.Args[2:]))
	case "list":
		cmdList(os.Args[2:])
	case "sweep":
		cmdSweep(os.Args[2:])
	default:
		fmt.Fprintln(os.Stderr, "unknown command", os.Args[1])
		os.Exit(2)
	}
}

func verifDir() string {
	if d := os.Getenv("VERIF_DIR"); d != "" {
		return d
	}
	return "/verif"
}

func repoDir() string {
	if d := os.Getenv("VERIF_REPO"); d != "" {
		return d
	}
	return "/repo"
}

func loadAll() (*Prog, error) {
	t0 := time.Now()
	p, err := LoadProg(repoDir(), "verif")
	if err != nil {
		return nil, err
	}
	files := []string{repoDir() + "/contracts_verif.go"}
	ents, _ := os.ReadDir(verifDir() + "/spec")
	for _, e := range ents {
		if strings.HasSuffix(e.Name(), ".gvc") {
			files = append(files, verifDir()+"/spec/"+e.Name())
		}
	}
	if extra := os.Getenv("GOVC_EXTRA"); extra != "" {
		// draft contracts under development (never set by registered checks)
		files = append(files, strings.Split(extra, ":")...)
	}
	var have []string
	for _, f := range files {
		if _, err := os.Stat(f); err == nil {
			have = append(have, f)
		}
	}
	cs, err := ParseContracts(have...)
	if err != nil {
		return nil, err
	}
	p.Cons = cs
	p.LoadSec = time.Since(t0).Seconds()
	return p, nil
}

func cmdList(args []string) {
	p, err := loadAll()
	if err != nil {
		fmt.Fprintln(os.Stderr, err)
		os.Exit(2)
	}
	for _, fn := range p.MainFuncs() {
		lf := p.LoopsOf(fn)
		fmt.Printf("%-70s blocks=%d loops=%d astloops=%d\n", funcKey(fn), len(fn.Blocks), len(lf.Loops), lf.ASTLoops)
	}
}

func cmdVC(args []string) {
	fs := flag.NewFlagSet("vc", flag.ExitOnError)
	dump := fs.Bool("dump", false, "print obligations' formulas")
	keep := fs.String("dir", "", "scratch dir to keep scripts")
	fs.Parse(args)
	p, err := loadAll()
	if err != nil {
		fmt.Fprintln(os.Stderr, err)
		os.Exit(2)
	}
	dir := *keep
	if dir == "" {
		dir, _ = os.MkdirTemp("/var/tmp", "govc-")
		defer os.RemoveAll(dir)
	} else {
		os.MkdirAll(dir, 0o755)
	}
	for _, key := range fs.Args() {
		fn := p.Funcs[key]
		if fn == nil {
			fmt.Println("no such function:", key)
			continue
		}
		x := NewExec(p, fn)
		t0 := time.Now()
		if err := x.Run(); err != nil {
			fmt.Println("ERROR", key, err)
			continue
		}
		fmt.Printf("== %s: %d obligations, %d facts, vcgen %.2fs bv=%v\n", key, len(x.obls), len(x.facts), time.Since(t0).Seconds(), x.bv)
		qms, fbs := 2000, 8
		if v := os.Getenv("GOVC_QMS"); v != "" {
			fmt.Sscanf(v, "%d", &qms)
		}
		if v := os.Getenv("GOVC_FBS"); v != "" {
			fmt.Sscanf(v, "%d", &fbs)
		}
		so := SolveOpts{Dir: dir, QuickMs: qms, FallbackS: fbs, Thorough: os.Getenv("GOVC_THOROUGH") != ""}
		if on := os.Getenv("GOVC_ONLY"); on != "" {
			so.Only = map[string]bool{}
			for _, o := range x.obls {
				if strings.Contains(o.Name, on) {
					so.Only[o.Name] = true
				}
			}
		}
		rs, vac := x.SolveFiltered(so)
		if vac {
			fmt.Println("  !! VACUOUS: assumptions are unsatisfiable")
			fmt.Println("     ", x.FindVacuity(dir))
		}
		cnt := map[string]int{}
		for _, r := range rs {
			cnt[r.Status]++
		}
		fmt.Printf("   summary: %v\n", cnt)
		for _, r := range rs {
			if os.Getenv("GOVC_ALL") == "" && r.Status == "unsat" {
				continue
			}
			fmt.Printf("  %-8s %-8s %6.2fs %s  [%s] %s\n", r.Status, r.Solver, r.Sec, r.O.Name, r.O.Pos, r.O.Text)
			if *dump {
				fmt.Printf("      pc: %s\n      goal: %s\n", r.O.PC, r.O.Goal)
			}
			if r.Status == "error" {
				fmt.Println("     ", r.Raw)
			}
			if r.Status == "sat" && *dump {
				fmt.Println(r.Model)
			}
			if sh := os.Getenv("GOVC_SHOW"); sh != "" && strings.Contains(r.O.Name, sh) {
				var cj []*Term
				var fl func(t *Term)
				fl = func(t *Term) {
					if t.Kind == KApp && t.Op == "and" {
						for _, a := range t.Args {
							fl(a)
						}
						return
					}
					cj = append(cj, t)
				}
				fl(r.O.PC)
				for _, c := range cj {
					var sbb strings.Builder
					c.print(&sbb, nil)
					txt := sbb.String()
					if len(txt) > 20000 {
						txt = txt[:20000] + " ..."
					}
					fmt.Printf("      pc: %s\n", txt)
				}
			}
			if cv := os.Getenv("GOVC_COVER"); cv != "" && strings.Contains(r.O.Name, cv) {
				o2 := *r.O
				o2.Goal = x.tt.False()
				emitMu.Lock()
				sc := x.standaloneScript(&o2, "z3", false)
				emitMu.Unlock()
				f := filepath.Join(dir, "cover.smt2")
				os.WriteFile(f, []byte(sc), 0o644)
				out, sec := runSolver("z3-new", f, 20)
				fmt.Printf("        cover (is the path feasible? sat = yes): %s (%.1fs)\n", firstStatus(out), sec)
				if firstStatus(out) == "unsat" && os.Getenv("GOVC_CORE") != "" {
					// name the assertions and ask for an unsat core: which facts make the path infeasible
					var sb strings.Builder
					sb.WriteString("(set-option :produce-unsat-cores true)\n")
					k := 0
					for _, l := range strings.Split(sc, "\n") {
						if strings.HasPrefix(l, "(assert ") && strings.HasSuffix(l, ")") {
							l = fmt.Sprintf("(assert (! %s :named a%d))", l[len("(assert "):len(l)-1], k)
							k++
						}
						sb.WriteString(l + "\n")
					}
					sb.WriteString("(get-unsat-core)\n")
					f2 := filepath.Join(dir, "core.smt2")
					os.WriteFile(f2, []byte(sb.String()), 0o644)
					out2, _ := runSolver("z3-new", f2, 60)
					fmt.Println("        core:", strings.TrimSpace(out2))
					for _, w := range strings.FieldsFunc(out2, func(r rune) bool { return r == ' ' || r == '(' || r == ')' || r == '\n' }) {
						if strings.HasPrefix(w, "a") {
							var id int
							if _, err := fmt.Sscanf(w, "a%d", &id); err == nil && id < len(r.O.Facts) {
								ft := r.O.Facts[id]
								txt := ft.String()
								if ft.Kind == KApp && ft.Op == "=>" && len(ft.Args) == 2 {
									txt = "[pc] => " + ft.Args[1].String()
								}
								if os.Getenv("GOVC_CORE") == "2" {
									var sbb strings.Builder
									ft.print(&sbb, nil)
									txt = sbb.String()
								}
								fmt.Printf("          a%d: %s\n", id, txt)
							}
						}
					}
				}
			}
			if r.Status != "unsat" && os.Getenv("GOVC_EXPLAIN") != "" {
				x.explain(r.O, dir)
			}
		}
		var notes []string
		for n, c := range x.notes {
			notes = append(notes, fmt.Sprintf("%s ×%d", n, c))
		}
		sort.Strings(notes)
		for _, n := range notes {
			fmt.Println("  note:", n)
		}
		for k, c := range x.uncontracted {
			fmt.Printf("  uncontracted: %s ×%d\n", k, c)
		}
	}
}

