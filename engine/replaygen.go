package main

// Counterexample replay: when an `ensures` obligation of a function with scalar parameters fails with a model, the
// model's inputs are turned into a Go test that calls the real function; the test fails ("reproduced") when the real
// code returns what the verifier's model predicts (nil-ness of the single result), i.e. when the violating run is a
// run of the real code. Anything the generator cannot express (pointers, slices, maps, uninterpreted registry
// behaviour) is not replayed and the violation is reported with `no-failing-input-found`.

import (
	"fmt"
	"go/types"
	"math"
	"os"
	"os/exec"
	"path/filepath"
	"regexp"
	"strconv"
	"strings"

	"golang.org/x/tools/go/ssa"
)

var reDefine = regexp.MustCompile(`(?s)\(define-fun \|?([^\s|]+)\|? \(\) ([^\n]+)\n\s*(.*?)\)\n\s*(?:\(define-fun|\)\s*$|\(\()`)

// modelValues extracts constant definitions (name -> sort, value text) from a z3 model.
func modelValues(model string) map[string][2]string {
	out := map[string][2]string{}
	lines := strings.Split(model, "\n")
	for i := 0; i < len(lines); i++ {
		l := strings.TrimSpace(lines[i])
		if !strings.HasPrefix(l, "(define-fun ") || !strings.Contains(l, " () ") {
			continue
		}
		rest := l[len("(define-fun "):]
		name := rest[:strings.Index(rest, " () ")]
		name = strings.Trim(name, "|")
		srt := strings.TrimSpace(rest[strings.Index(rest, " () ")+4:])
		// value: following lines until parentheses balance
		var val strings.Builder
		depth := 1
		for j := i + 1; j < len(lines) && depth > 0; j++ {
			for _, c := range lines[j] {
				if c == '(' {
					depth++
				}
				if c == ')' {
					depth--
					if depth == 0 {
						break
					}
				}
				val.WriteRune(c)
			}
			val.WriteString(" ")
		}
		out[name] = [2]string{srt, strings.TrimSpace(val.String())}
	}
	return out
}

func smtInt(v string) (int64, bool) {
	v = strings.TrimSpace(v)
	neg := false
	if strings.HasPrefix(v, "(-") {
		neg = true
		v = strings.TrimSpace(strings.TrimSuffix(strings.TrimPrefix(v, "(-"), ")"))
	}
	if strings.HasPrefix(v, "#x") {
		u, err := strconv.ParseUint(v[2:], 16, 64)
		return int64(u), err == nil
	}
	if strings.HasPrefix(v, "#b") {
		u, err := strconv.ParseUint(v[2:], 2, 64)
		return int64(u), err == nil
	}
	n, err := strconv.ParseInt(v, 10, 64)
	if err != nil {
		return 0, false
	}
	if neg {
		n = -n
	}
	return n, true
}

// smtFloat renders an SMT FP value as a Go expression of the given float type.
func smtFloat(v string, bits int) (string, bool) {
	v = strings.TrimSpace(v)
	mk := func(b uint64) string {
		if bits == 32 {
			return fmt.Sprintf("math.Float32frombits(0x%x)", uint32(b))
		}
		return fmt.Sprintf("math.Float64frombits(0x%x)", b)
	}
	switch {
	case strings.HasPrefix(v, "(_ +zero"):
		return mk(0), true
	case strings.HasPrefix(v, "(_ -zero"):
		if bits == 32 {
			return mk(1 << 31), true
		}
		return mk(1 << 63), true
	case strings.HasPrefix(v, "(_ +oo"):
		if bits == 32 {
			return "float32(math.Inf(1))", true
		}
		return "math.Inf(1)", true
	case strings.HasPrefix(v, "(_ -oo"):
		if bits == 32 {
			return "float32(math.Inf(-1))", true
		}
		return "math.Inf(-1)", true
	case strings.HasPrefix(v, "(_ NaN"):
		if bits == 32 {
			return "float32(math.NaN())", true
		}
		return "math.NaN()", true
	case strings.HasPrefix(v, "(fp "):
		f := strings.Fields(strings.TrimSuffix(strings.TrimPrefix(v, "(fp "), ")"))
		if len(f) != 3 {
			return "", false
		}
		var all string
		for _, p := range f {
			switch {
			case strings.HasPrefix(p, "#b"):
				all += p[2:]
			case strings.HasPrefix(p, "#x"):
				u, err := strconv.ParseUint(p[2:], 16, 64)
				if err != nil {
					return "", false
				}
				all += fmt.Sprintf("%0*b", 4*len(p[2:]), u)
			default:
				return "", false
			}
		}
		if len(all) != bits {
			return "", false
		}
		u, err := strconv.ParseUint(all, 2, 64)
		if err != nil {
			return "", false
		}
		return mk(u), true
	}
	return "", false
}

func goBasicExpr(T types.Type, srt, v string) (string, bool) {
	b, ok := T.Underlying().(*types.Basic)
	if !ok {
		return "", false
	}
	tn := types.TypeString(T, func(p *types.Package) string {
		if p.Path() == mainPath {
			return ""
		}
		return p.Name()
	})
	switch {
	case b.Info()&types.IsBoolean != 0:
		return tn + "(" + strings.TrimSpace(v) + ")", v == "true" || v == "false"
	case b.Info()&types.IsInteger != 0:
		n, ok := smtInt(v)
		if !ok {
			return "", false
		}
		if b.Info()&types.IsUnsigned != 0 {
			return fmt.Sprintf("%s(%d)", tn, uint64(n)), true
		}
		// bit-vector models print the two's complement pattern: reinterpret at the type's width
		switch b.Kind() {
		case types.Int8:
			n = int64(int8(n))
		case types.Int16:
			n = int64(int16(n))
		case types.Int32:
			n = int64(int32(n))
		}
		return fmt.Sprintf("%s(%d)", tn, n), true
	case b.Kind() == types.Float64:
		e, ok := smtFloat(v, 64)
		return tn + "(" + e + ")", ok
	case b.Kind() == types.Float32:
		e, ok := smtFloat(v, 32)
		return tn + "(" + e + ")", ok
	case b.Info()&types.IsString != 0:
		// strings are uninterpreted in the encoding: any content is a model; distinct model values get distinct text
		return tn + "(" + strconv.Quote("s"+strings.Map(func(r rune) rune {
			if r >= '0' && r <= '9' {
				return r
			}
			return -1
		}, v)) + ")", true
	}
	return "", false
}

// goValExpr renders a model value of sort Val (a boxed Go value) as a Go expression.
func (p *Prog) goValExpr(v string) (string, bool) {
	v = strings.TrimSpace(v)
	if v == "vnil" {
		return "nil", true
	}
	if !strings.HasPrefix(v, "(v") {
		return "", false
	}
	inner := strings.TrimSuffix(strings.TrimPrefix(v, "("), ")")
	sp := strings.IndexByte(inner, ' ')
	if sp < 0 {
		return "", false
	}
	ctor := inner[:sp]
	rest := strings.TrimSpace(inner[sp+1:])
	// tid is the first token (an integer, possibly negative in junk models)
	var tidTxt, payload string
	if strings.HasPrefix(rest, "(") {
		end := strings.Index(rest, ")")
		tidTxt, payload = rest[:end+1], strings.TrimSpace(rest[end+1:])
	} else {
		sp2 := strings.IndexByte(rest, ' ')
		if sp2 < 0 {
			return "", false
		}
		tidTxt, payload = rest[:sp2], strings.TrimSpace(rest[sp2+1:])
	}
	tid, ok := smtInt(tidTxt)
	var T types.Type
	if ok && tid >= 1 && int(tid) <= len(p.tidList) {
		T = p.tidList[tid-1]
	} else {
		// the model left the dynamic type open (any type of that kind): take the widest Go type of the kind
		T = map[string]types.Type{"vint": types.Typ[types.Int64], "vuint": types.Typ[types.Uint64], "vbool": types.Typ[types.Bool],
			"vf64": types.Typ[types.Float64], "vf32": types.Typ[types.Float32], "vstr": types.Typ[types.String]}[ctor]
		if T == nil {
			return "", false
		}
	}
	switch ctor {
	case "vint", "vuint", "vbool", "vf64", "vf32", "vstr":
		return goBasicExpr(T, "", payload)
	}
	return "", false
}

type replayOutcome struct {
	file       string // generated test source (kept next to the replay text)
	output     string
	reproduced bool
	attempted  bool
	why        string
}

// tryReplay builds and runs a replay test for a failed ensures obligation of fn from the model.
func (p *Prog) tryReplay(fn *ssa.Function, o *Obligation, model string, predictedNil *bool, dir, tag string) replayOutcome {
	var ro replayOutcome
	if predictedNil == nil {
		ro.why = "the model does not determine the result"
		return ro
	}
	if fn.Signature.Recv() != nil || fn.Pkg == nil || fn.Pkg.Pkg.Path() != mainPath {
		ro.why = "only package-level functions of the main package are replayed"
		return ro
	}
	// A clause that mentions an uninterpreted spec function (validRE, reMatch, regValidates, …) is violated in the
	// model under the model's own, arbitrary interpretation of that function: running the real code on the model's
	// inputs says nothing about the clause. (Found with seed C14-b: Pattern("s6") on "s7" returning an error was
	// reported as "reproduced" although it is the correct answer.) Such counterexamples are not replayed.
	for name, pr := range p.Cons.Preds {
		if pr.UF && regexp.MustCompile(`\b`+regexp.QuoteMeta(name)+`\(`).MatchString(o.Text) {
			ro.why = "the clause depends on the uninterpreted spec function " + name + ": the model's inputs do not decide it on the real code"
			return ro
		}
	}
	res := fn.Signature.Results()
	if res.Len() != 1 {
		ro.why = "needs exactly one result"
		return ro
	}
	switch res.At(0).Type().Underlying().(type) {
	case *types.Pointer, *types.Interface:
	default:
		ro.why = "result is not a pointer or interface"
		return ro
	}
	vals := modelValues(model)
	var args []string
	needMath := false
	for _, prm := range fn.Params {
		var mv [2]string
		found := false
		for n, v := range vals {
			if strings.HasPrefix(n, "p$"+prm.Name()+"!") {
				mv, found = v, true
			}
		}
		var e string
		ok := false
		switch {
		case !found:
			// unconstrained in the model: any value will do
			e, ok = zeroExpr(prm.Type())
		case mv[0] == "Val":
			e, ok = p.goValExpr(mv[1])
		default:
			e, ok = goBasicExpr(prm.Type(), mv[0], mv[1])
		}
		if !ok {
			ro.why = "parameter " + prm.Name() + " (" + prm.Type().String() + ") has a model value the generator cannot express: " + mv[1]
			return ro
		}
		if strings.Contains(e, "math.") {
			needMath = true
		}
		args = append(args, e)
	}
	name := "TestGovcReplay_" + tag
	var sb strings.Builder
	sb.WriteString("package validate\n\nimport (\n\t\"testing\"\n")
	if needMath {
		sb.WriteString("\t\"math\"\n")
	}
	sb.WriteString(")\n\n")
	fmt.Fprintf(&sb, "// replay of the verifier's counterexample for obligation %s\n// clause: %s\n", o.Name, o.Text)
	fmt.Fprintf(&sb, "func %s(t *testing.T) {\n\tr := %s(%s)\n\tgotNil := r == nil\n", name, fn.Name(), strings.Join(args, ", "))
	fmt.Fprintf(&sb, "\tif gotNil == %v {\n\t\tt.Fatalf(\"reproduced on the real code: %s(%s) returned nil=%%v (result %%v), as in the counterexample that violates the clause\", gotNil, r)\n\t}\n", *predictedNil, fn.Name(), strings.ReplaceAll(strings.Join(args, ", "), "\"", "'"))
	fmt.Fprintf(&sb, "\tt.Logf(\"not reproduced: the real code returned nil=%%v, the model predicted nil=%v\", gotNil)\n}\n", *predictedNil)
	ro.attempted = true
	os.MkdirAll(dir, 0o755)
	ro.file = filepath.Join(dir, "replay_"+tag+"_test.go")
	os.WriteFile(ro.file, []byte(sb.String()), 0o644)
	ovDir, _ := os.MkdirTemp("/var/tmp", "govc-cex-")
	defer os.RemoveAll(ovDir)
	ov := fmt.Sprintf(`{"Replace":{%q:%q}}`, filepath.Join(repoDir(), "zz_govc_cex_test.go"), ro.file)
	ovf := filepath.Join(ovDir, "ov.json")
	os.WriteFile(ovf, []byte(ov), 0o644)
	cmd := exec.Command("go", "test", "-tags", "", "-overlay", ovf, "-vet=off", "-count=1", "-timeout", "60s", "-run", "^"+name+"$", "-v", ".")
	cmd.Dir = repoDir()
	cmd.Env = append(os.Environ(), "GOFLAGS=-mod=mod", "GOPROXY=off", "GOSUMDB=off", "GOTOOLCHAIN=local")
	out, _ := cmd.CombinedOutput()
	ro.output = string(out)
	if len(ro.output) > 3000 {
		ro.output = ro.output[len(ro.output)-3000:]
	}
	ro.reproduced = strings.Contains(ro.output, "--- FAIL: "+name) && strings.Contains(ro.output, "reproduced on the real code")
	if !ro.reproduced {
		ro.why = "the real code did not behave as the model predicts (or the test did not build)"
	}
	return ro
}

func zeroExpr(T types.Type) (string, bool) {
	switch u := T.Underlying().(type) {
	case *types.Basic:
		tn := types.TypeString(T, func(p *types.Package) string { return p.Name() })
		switch {
		case u.Info()&types.IsBoolean != 0:
			return tn + "(false)", true
		case u.Info()&types.IsNumeric != 0:
			return tn + "(0)", true
		case u.Info()&types.IsString != 0:
			return tn + "(\"\")", true
		}
	case *types.Interface, *types.Pointer, *types.Slice, *types.Map:
		return "nil", true
	}
	return "", false
}

var _ = math.Pi
