package main

import (
	"fmt"
	"go/ast"
	"go/token"
	"go/types"
	"os"
	"sort"
	"strings"

	"golang.org/x/tools/go/packages"
	"golang.org/x/tools/go/ssa"
	"golang.org/x/tools/go/ssa/ssautil"
)

type Prog struct {
	Fset    *token.FileSet
	Pkgs    []*packages.Package
	SSA     *ssa.Program
	Main    *ssa.Package // github.com/go-openapi/validate
	Post    *ssa.Package // .../post
	RepoDir string
	Funcs   map[string]*ssa.Function // key -> function (all packages, by funcKey)
	Cons    *ContractSet
	LoadSec float64
	// per-function source-order loop info cache
	loops map[*ssa.Function]*LoopForest
	// type ids
	srcLines map[string][]string
	tids    map[string]int
	tidList []types.Type
}

const mainPath = "github.com/go-openapi/validate"

func LoadProg(repo string, tags string) (*Prog, error) {
	os.Setenv("GOFLAGS", "-mod=mod")
	os.Setenv("GOPROXY", "off")
	os.Setenv("GOSUMDB", "off")
	os.Setenv("GOTOOLCHAIN", "local")
	fset := token.NewFileSet()
	cfg := &packages.Config{
		Mode:       packages.LoadAllSyntax,
		Dir:        repo,
		Fset:       fset,
		BuildFlags: []string{"-tags=" + tags},
		Tests:      false,
	}
	pkgs, err := packages.Load(cfg, ".", "./post")
	if err != nil {
		return nil, err
	}
	nerr := 0
	packages.Visit(pkgs, nil, func(p *packages.Package) {
		for _, e := range p.Errors {
			if strings.HasPrefix(p.PkgPath, mainPath) {
				fmt.Fprintf(os.Stderr, "load error: %s: %v\n", p.PkgPath, e)
				nerr++
			}
		}
	})
	if nerr > 0 {
		return nil, fmt.Errorf("%d load errors in package under verification", nerr)
	}
	prog, _ := ssautil.AllPackages(pkgs, ssa.GlobalDebug)
	prog.Build()
	p := &Prog{Fset: fset, Pkgs: pkgs, SSA: prog, RepoDir: repo, Funcs: map[string]*ssa.Function{}, loops: map[*ssa.Function]*LoopForest{}, tids: map[string]int{}, srcLines: map[string][]string{}}
	for _, sp := range prog.AllPackages() {
		switch sp.Pkg.Path() {
		case mainPath:
			p.Main = sp
		case mainPath + "/post":
			p.Post = sp
		}
	}
	if p.Main == nil {
		return nil, fmt.Errorf("package %s not found", mainPath)
	}
	for fn := range ssautil.AllFunctions(prog) {
		if fn.Pkg == nil && fn.Synthetic != "" {
			// wrappers/thunks: index too, under their name
		}
		p.Funcs[funcKey(fn)] = fn
	}
	return p, nil
}

// funcKey: for functions of the main package: "Name", "(*T).M", "(T).M", "f$1";
// for other packages: "pkgpath.Name", "(*pkgpath.T).M".
func funcKey(fn *ssa.Function) string {
	s := fn.String() // e.g. "github.com/go-openapi/validate.MaximumInt", "(*github.com/go-openapi/validate.Result).AddErrors"
	s = strings.ReplaceAll(s, mainPath+"/post.", "post.")
	s = strings.ReplaceAll(s, mainPath+".", "")
	return s
}

func (p *Prog) inMain(fn *ssa.Function) bool {
	if fn == nil {
		return false
	}
	pk := fn.Package()
	if pk == nil && fn.Parent() != nil {
		pk = fn.Parent().Package()
	}
	return pk != nil && (pk == p.Main || pk == p.Post)
}

// MainFuncs lists functions (incl. anonymous) of the packages under verification, sorted.
func (p *Prog) MainFuncs() []*ssa.Function {
	var out []*ssa.Function
	for _, fn := range p.Funcs {
		if p.inMain(fn) && fn.Blocks != nil && fn.Synthetic == "" {
			out = append(out, fn)
		}
	}
	sort.Slice(out, func(i, j int) bool { return funcKey(out[i]) < funcKey(out[j]) })
	return out
}

func (p *Prog) tid(t types.Type) int {
	k := reAny.ReplaceAllString(types.TypeString(t, nil), "interface{}")
	if id, ok := p.tids[k]; ok {
		return id
	}
	id := len(p.tidList) + 1
	p.tids[k] = id
	p.tidList = append(p.tidList, t)
	return id
}

// ---------- loops

type Loop struct {
	Header   *ssa.BasicBlock
	Blocks   map[*ssa.BasicBlock]bool
	Parent   *Loop
	Children []*Loop
	Ordinal  int // 1-based, source pre-order
	minPos   token.Pos
	depth    int
}

type LoopForest struct {
	Loops    []*Loop                   // by ordinal
	ByHeader map[*ssa.BasicBlock]*Loop // header -> loop
	Inner    map[*ssa.BasicBlock]*Loop // innermost loop containing block
	RPO      []*ssa.BasicBlock
	rpoIdx   map[*ssa.BasicBlock]int
	ASTLoops int
}

func (p *Prog) LoopsOf(fn *ssa.Function) *LoopForest {
	if lf, ok := p.loops[fn]; ok {
		return lf
	}
	lf := &LoopForest{ByHeader: map[*ssa.BasicBlock]*Loop{}, Inner: map[*ssa.BasicBlock]*Loop{}, rpoIdx: map[*ssa.BasicBlock]int{}}
	// RPO ignoring back edges (DFS)
	visited := map[*ssa.BasicBlock]bool{}
	var post []*ssa.BasicBlock
	var dfs func(b *ssa.BasicBlock)
	dfs = func(b *ssa.BasicBlock) {
		visited[b] = true
		for _, s := range b.Succs {
			if !visited[s] {
				dfs(s)
			}
		}
		post = append(post, b)
	}
	if len(fn.Blocks) > 0 {
		dfs(fn.Blocks[0])
	}
	for i := len(post) - 1; i >= 0; i-- {
		lf.rpoIdx[post[i]] = len(lf.RPO)
		lf.RPO = append(lf.RPO, post[i])
	}
	// back edges
	for _, b := range lf.RPO {
		for _, s := range b.Succs {
			if s.Dominates(b) {
				l := lf.ByHeader[s]
				if l == nil {
					l = &Loop{Header: s, Blocks: map[*ssa.BasicBlock]bool{s: true}}
					lf.ByHeader[s] = l
					lf.Loops = append(lf.Loops, l)
				}
				// add nodes reaching b without passing s
				var stack []*ssa.BasicBlock
				if !l.Blocks[b] {
					l.Blocks[b] = true
					stack = append(stack, b)
				}
				for len(stack) > 0 {
					x := stack[len(stack)-1]
					stack = stack[:len(stack)-1]
					for _, pr := range x.Preds {
						if !l.Blocks[pr] && visited[pr] {
							l.Blocks[pr] = true
							stack = append(stack, pr)
						}
					}
				}
			}
		}
	}
	// nesting
	for _, l := range lf.Loops {
		for _, m := range lf.Loops {
			if l != m && m.Blocks[l.Header] && len(m.Blocks) > len(l.Blocks) {
				if l.Parent == nil || len(m.Blocks) < len(l.Parent.Blocks) {
					l.Parent = m
				}
			}
		}
	}
	for _, l := range lf.Loops {
		if l.Parent != nil {
			l.Parent.Children = append(l.Parent.Children, l)
		}
		for q := l.Parent; q != nil; q = q.Parent {
			l.depth++
		}
		l.minPos = token.Pos(1 << 40)
		for b := range l.Blocks {
			for _, in := range b.Instrs {
				if _, ok := in.(*ssa.DebugRef); ok {
					continue
				}
				if ps := in.Pos(); ps.IsValid() && ps < l.minPos {
					l.minPos = ps
				}
			}
		}
	}
	for _, b := range lf.RPO {
		var best *Loop
		for _, l := range lf.Loops {
			if l.Blocks[b] && (best == nil || len(l.Blocks) < len(best.Blocks)) {
				best = l
			}
		}
		lf.Inner[b] = best
	}
	// Ordinals: match SSA loops to AST loop statements in source pre-order.
	// Use AST positions: each SSA loop is assigned to the innermost AST loop statement whose span contains minPos.
	var astLoops []ast.Node
	if syn := fn.Syntax(); syn != nil {
		var body ast.Node
		switch s := syn.(type) {
		case *ast.FuncDecl:
			body = s.Body
		case *ast.FuncLit:
			body = s.Body
		}
		if body != nil {
			ast.Inspect(body, func(n ast.Node) bool {
				switch n.(type) {
				case *ast.FuncLit:
					return false
				case *ast.ForStmt, *ast.RangeStmt:
					astLoops = append(astLoops, n)
				}
				return true
			})
		}
	}
	lf.ASTLoops = len(astLoops)
	sort.SliceStable(lf.Loops, func(i, j int) bool {
		a, b := lf.Loops[i], lf.Loops[j]
		if a.minPos != b.minPos {
			return a.minPos < b.minPos
		}
		return a.depth < b.depth
	})
	for i, l := range lf.Loops {
		l.Ordinal = i + 1
	}
	p.loops[fn] = lf
	return lf
}

// isBackEdge reports whether from->to is a back edge.
func isBackEdge(from, to *ssa.BasicBlock) bool { return to.Dominates(from) }

// implicitRecvNonNil: method with a pointer receiver whose body never compares the receiver with nil.
// Such methods get the implicit precondition `receiver != nil`, assumed at entry and checked at every call site.
func (p *Prog) implicitRecvNonNil(fn *ssa.Function) bool {
	if fn.Signature.Recv() == nil || len(fn.Params) == 0 {
		return false
	}
	if _, ok := fn.Params[0].Type().Underlying().(*types.Pointer); !ok {
		return false
	}
	recv := fn.Params[0]
	// a receiver that is never used (helper namespaces such as errorHelp) may well be nil
	used := false
	if refs := recv.Referrers(); refs != nil {
		for _, r := range *refs {
			if _, isDbg := r.(*ssa.DebugRef); isDbg {
				continue
			}
			// handing the receiver on to another call is not a use here: the callee states its own requirement
			if c, isCall := r.(*ssa.Call); isCall && c.Call.Value != recv {
				continue
			}
			used = true
		}
	}
	if !used {
		return false
	}
	// values derived directly from the receiver (loads from the cell that holds it when captured)
	derived := map[ssa.Value]bool{recv: true}
	for _, b := range fn.Blocks {
		for _, in := range b.Instrs {
			if st, ok := in.(*ssa.Store); ok && st.Val == recv {
				if a, ok := st.Addr.(*ssa.Alloc); ok {
					if refs := a.Referrers(); refs != nil {
						for _, r := range *refs {
							if u, ok := r.(*ssa.UnOp); ok && u.Op == token.MUL {
								derived[u] = true
							}
						}
					}
				}
			}
		}
	}
	for _, b := range fn.Blocks {
		for _, in := range b.Instrs {
			if bo, ok := in.(*ssa.BinOp); ok && (bo.Op == token.EQL || bo.Op == token.NEQ) {
				if derived[bo.X] || derived[bo.Y] {
					if c, ok := bo.Y.(*ssa.Const); ok && c.Value == nil {
						return false
					}
					if c, ok := bo.X.(*ssa.Const); ok && c.Value == nil {
						return false
					}
				}
			}
		}
	}
	return true
}
