package main

import (
	"fmt"
	"os"
	"go/types"
	"strings"

	"golang.org/x/tools/go/ssa"
)

const maxInlineDepth = 6

// doCall executes a call instruction. site may be nil for deferred calls.
func (x *Exec) doCall(fr *Frame, st *State, c *ssa.CallCommon, site ssa.Instruction, deferred bool) Value {
	args := make([]Value, len(c.Args))
	for i, a := range c.Args {
		args[i] = x.val(fr, st, a)
	}
	if c.IsInvoke() {
		recv := asTerm(x.val(fr, st, c.Value))
		return x.doInvoke(fr, st, recv, c.Value.Type(), c.Method, args, c.Signature())
	}
	switch callee := c.Value.(type) {
	case *ssa.Builtin:
		return x.doBuiltin(fr, st, callee, c, args)
	case *ssa.Function:
		return x.callStatic(fr, st, callee, args, nil)
	case *ssa.MakeClosure:
		cl := x.val(fr, st, callee).(*Closure)
		return x.callStatic(fr, st, cl.Fn, args, cl.Bind)
	}
	// dynamic function value
	v := x.val(fr, st, c.Value)
	if cl, ok := v.(*Closure); ok {
		return x.callStatic(fr, st, cl.Fn, args, cl.Bind)
	}
	// function values of a named func type with a declared type contract (e.g. `functype Option modifies all(arg0)`)
	if ft, ok := c.Value.Type().(*types.Named); ok {
		if fc := x.prog.Cons.ByKey["functype "+typeName(ft)]; fc != nil {
			x.assumedExtern["functype:"+typeName(ft)]++
			pre := st.clone()
			env := &Env{x: x, st: pre, old: pre, vars: map[string]Value{}, vtypes: map[string]types.Type{}, fr: fr}
			sig := c.Signature()
			for i := 0; i < sig.Params().Len() && i < len(args); i++ {
				env.vars[fmt.Sprintf("arg%d", i)] = args[i]
				env.vtypes[fmt.Sprintf("arg%d", i)] = sig.Params().At(i).Type()
			}
			for _, m := range fc.Modifies {
				x.havocLvalue(env, st, m)
			}
			return x.freshResults("dyn", sig.Results())
		}
	}
	x.note("call of unknown function value (havoc)")
	x.uncontracted["<func value>"]++
	x.havocAll(st)
	return x.freshResults("dyn", c.Signature().Results())
}

func (x *Exec) freshResults(prefix string, res *types.Tuple) Value {
	switch res.Len() {
	case 0:
		return nil
	case 1:
		return x.fresh("r$"+prefix, res.At(0).Type())
	}
	a := &Agg{T: res}
	for i := 0; i < res.Len(); i++ {
		a.Elems = append(a.Elems, x.fresh(fmt.Sprintf("r$%s.%d", prefix, i), res.At(i).Type()))
	}
	return a
}

func (x *Exec) callStatic(fr *Frame, st *State, fn *ssa.Function, args []Value, bind []Value) Value {
	key := funcKey(fn)
	if m, ok := models[key]; ok {
		x.assumedExtern["model:"+key]++
		return m(x, fr, st, args)
	}
	con := x.prog.Cons.ByKey[key]
	inMain := x.prog.inMain(fn)
	if con != nil && !con.Inline {
		if con.Trusted && !con.Extern {
			x.assumedExtern["trusted-contract-of-this-package(not proved):"+key]++
		} else if con.Extern || con.Trusted {
			x.assumedExtern["contract:"+key]++
		}
		return x.applyContract(fr, st, fn, con, args)
	}
	canInline := fn.Blocks != nil && (fn.Parent() != nil || (con != nil && con.Inline) || ((inMain || inlinablePkg(fn)) && x.autoInline(fn)))
	if canInline && fr.depth < maxInlineDepth && !x.onStack(fr, fn) {
		return x.inline(fr, st, fn, args, bind)
	}
	// no contract
	x.uncontracted[key]++
	sig := fn.Signature
	if inMain {
		x.havocAll(st)
	} else {
		x.externDefault(fr, st, fn, args)
	}
	return x.freshResultsFor(st, key, sig.Results())
}

func (x *Exec) freshResultsFor(st *State, key string, res *types.Tuple) Value {
	v := x.freshResults(shortKey(key), res)
	// results that are pointers refer to existing (or new) objects: nothing to assume
	return v
}

func shortKey(k string) string {
	if i := strings.LastIndex(k, "/"); i >= 0 {
		k = k[i+1:]
	}
	return k
}

func (x *Exec) onStack(fr *Frame, fn *ssa.Function) bool {
	for f := fr; f != nil; f = f.parent {
		if f.fn == fn {
			return true
		}
	}
	return false
}

// inlinablePkg: dependency packages whose small functions are verified from their own SSA rather than assumed.
func inlinablePkg(fn *ssa.Function) bool {
	if fn.Pkg == nil {
		return false
	}
	switch fn.Pkg.Pkg.Path() {
	case "github.com/go-openapi/errors":
		return true
	}
	return false
}

// autoInline: small leaf functions of the package without loops.
func (x *Exec) autoInline(fn *ssa.Function) bool {
	return x.autoInlineD(fn, 0)
}

func (x *Exec) autoInlineD(fn *ssa.Function, depth int) bool {
	if depth > 3 {
		return false
	}
	if v, ok := x.inlineMemo[fn]; ok {
		return v
	}
	r := x.autoInline1(fn, depth)
	x.inlineMemo[fn] = r
	return r
}

func (x *Exec) autoInline1(fn *ssa.Function, depth int) bool {
	if len(fn.Blocks) == 0 || len(fn.Blocks) > 48 {
		return false
	}
	lf := x.prog.LoopsOf(fn)
	if len(lf.Loops) > 0 {
		return false
	}
	n := 0
	for _, b := range fn.Blocks {
		for _, in := range b.Instrs {
			if _, ok := in.(*ssa.DebugRef); ok {
				continue
			}
			n++
			if c, ok := in.(ssa.CallInstruction); ok {
				cc := c.Common()
				if cc.IsInvoke() {
					return false
				}
				if callee := cc.StaticCallee(); callee != nil {
					if (x.prog.inMain(callee) || inlinablePkg(callee)) && x.prog.Cons.ByKey[funcKey(callee)] == nil {
						if _, isModel := models[funcKey(callee)]; !isModel {
							// callee chains are inlined only when every link is itself inlinable
							if callee == fn || !x.autoInlineD(callee, depth+1) {
								return false
							}
						}
					}
				}
			}
		}
	}
	return n <= 200
}

// externDefault: policy for dependency functions without contract or model.
func (x *Exec) externDefault(fr *Frame, st *State, fn *ssa.Function, args []Value) {
	pk := ""
	if fn.Pkg != nil {
		pk = fn.Pkg.Pkg.Path()
	} else if fn.Object() != nil && fn.Object().Pkg() != nil {
		pk = fn.Object().Pkg().Path()
	}
	switch {
	case strings.HasPrefix(pk, "github.com/go-openapi/spec"), strings.HasPrefix(pk, "github.com/go-openapi/analysis"),
		strings.HasPrefix(pk, "github.com/go-openapi/loads"), strings.HasPrefix(pk, "github.com/go-openapi/jsonpointer"), strings.HasPrefix(pk, "encoding/"):
		// may write through its pointer arguments: conservative havoc of everything it can reach. These packages are
		// imported by the package under verification, so (no import cycles) they cannot name its types, and no object
		// of such a type is handed to them: the fields of this package's struct types are kept (assumption recorded
		// in the evidence: no unsafe, no reflection on and no call-back into this package's objects).
		x.assumedExtern["frame:go-openapi-spec/analysis/loads/jsonpointer-and-encoding/*-do-not-write-fields-of-this-package's-structs"]++
		x.havocAllKeeping(st, ownStructFieldHeap)
	default:
		// stdlib helpers and value-only libraries: no caller-visible writes
	}
}

// ---------- inlining

func (x *Exec) inline(fr *Frame, st *State, fn *ssa.Function, args []Value, bind []Value) Value {
	key := funcKey(fn)
	x.inlined[key]++
	nf := &Frame{fn: fn, parent: fr, depth: fr.depth + 1, lf: x.prog.LoopsOf(fn), con: x.prog.Cons.ByKey[key]}
	nf.tag = fr.tag
	if nf.tag != "" {
		nf.tag += "/"
	}
	nf.tag += "in:" + shortKey(key)
	// callee works on a clone of registers: save caller regs/names
	savedRegs, savedNames, savedDefers := st.regs, st.names, st.defers
	st.regs = map[ssa.Value]Value{}
	st.names = map[string]Value{}
	st.defers = nil
	for i, p := range fn.Params {
		st.regs[p] = args[i]
		st.names[p.Name()] = args[i]
	}
	for i, fv := range fn.FreeVars {
		st.regs[fv] = bind[i]
	}
	nf.entry = st.clone()
	nf.args = args
	savedPos := x.curPos
	exits, backs := x.runRegion(nf, nil, fn.Blocks[0], st.clone())
	_ = exits
	_ = backs
	x.curPos = savedPos
	rs := x.mergeReturn(nf)
	// panics inside the callee propagate to the caller (callee defers already accounted for by RunDefers only on normal paths)
	for _, ps := range nf.panics {
		p2 := x.runDefers(nf, ps, true)
		p2.regs, p2.names, p2.defers = cloneRegs(savedRegs), cloneNames(savedNames), append([]deferRec(nil), savedDefers...)
		fr.panics = append(fr.panics, p2)
	}
	if rs == nil {
		// callee never returns normally
		st.pc = x.tt.False()
		st.regs, st.names, st.defers = savedRegs, savedNames, savedDefers
		return x.freshResults("noret", fn.Signature.Results())
	}
	*st = *rs.st
	st.regs, st.names, st.defers = savedRegs, savedNames, savedDefers
	x.curPC = st.pc
	switch len(rs.vals) {
	case 0:
		return nil
	case 1:
		return rs.vals[0]
	}
	return &Agg{Elems: rs.vals, T: fn.Signature.Results()}
}

func cloneRegs(m map[ssa.Value]Value) map[ssa.Value]Value {
	n := make(map[ssa.Value]Value, len(m))
	for k, v := range m {
		n[k] = v
	}
	return n
}
func cloneNames(m map[string]Value) map[string]Value {
	n := make(map[string]Value, len(m))
	for k, v := range m {
		n[k] = v
	}
	return n
}

// ---------- defers

func (x *Exec) runDefers(fr *Frame, st *State, panicking bool) *State {
	cur := st
	ds := cur.defers
	cur.defers = nil
	for i := len(ds) - 1; i >= 0; i-- {
		d := ds[i]
		if isFalse(d.guard) {
			continue
		}
		run := cur.clone()
		run.pc = x.tt.And(cur.pc, d.guard)
		skip := cur
		skip.pc = x.tt.And(cur.pc, x.tt.Not(d.guard))
		if !isFalse(run.pc) {
			x.curPC = run.pc
			x.execDeferred(fr, run, d)
		}
		m := x.mergeStates([]*State{run, skip})
		if m == nil {
			m = run
			m.pc = x.tt.False()
		}
		cur = m
	}
	x.curPC = cur.pc
	return cur
}

func (x *Exec) execDeferred(fr *Frame, st *State, d deferRec) {
	c := d.instr.Common()
	if c.IsInvoke() {
		recv := asTerm(d.args[0])
		x.doInvoke(fr, st, recv, c.Value.Type(), c.Method, d.args[1:], c.Signature())
		return
	}
	if cl, ok := d.fn.(*Closure); ok {
		x.callStatic(fr, st, cl.Fn, d.args, cl.Bind)
		return
	}
	if fn := c.StaticCallee(); fn != nil {
		x.callStatic(fr, st, fn, d.args, nil)
		return
	}
	if b, ok := c.Value.(*ssa.Builtin); ok {
		x.note("deferred builtin " + b.Name())
		return
	}
	x.note("deferred call of unknown function value (havoc)")
	x.havocAll(st)
}

// ---------- contracts at call sites

func (x *Exec) paramNames(fn *ssa.Function, con *Contract) []string {
	var names []string
	if fn != nil && len(fn.Params) > 0 {
		for _, p := range fn.Params {
			names = append(names, p.Name())
		}
		return names
	}
	if con != nil && len(con.Params) > 0 {
		return con.Params
	}
	if fn != nil {
		sig := fn.Signature
		if sig.Recv() != nil {
			names = append(names, sig.Recv().Name())
		}
		for i := 0; i < sig.Params().Len(); i++ {
			names = append(names, sig.Params().At(i).Name())
		}
	}
	return names
}

func (x *Exec) paramTypes(fn *ssa.Function) []types.Type {
	var ts []types.Type
	if len(fn.Params) > 0 {
		for _, p := range fn.Params {
			ts = append(ts, p.Type())
		}
		return ts
	}
	sig := fn.Signature
	if sig.Recv() != nil {
		ts = append(ts, sig.Recv().Type())
	}
	for i := 0; i < sig.Params().Len(); i++ {
		ts = append(ts, sig.Params().At(i).Type())
	}
	return ts
}

func (x *Exec) applyContract(fr *Frame, st *State, fn *ssa.Function, con *Contract, args []Value) Value {
	key := con.Key
	names := x.paramNames(fn, con)
	ptypes := x.paramTypes(fn)
	pre := st.clone()
	mkEnv := func(cur *State, results []Value) *Env {
		e := &Env{x: x, st: cur, old: pre, vars: map[string]Value{}, vtypes: map[string]types.Type{}, fr: fr}
		for i, n := range names {
			if i < len(args) {
				e.vars[n] = args[i]
				if i < len(ptypes) {
					e.vtypes[n] = ptypes[i]
				}
			}
		}
		res := fn.Signature.Results()
		for i := 0; i < res.Len() && i < len(results); i++ {
			rn := res.At(i).Name()
			if rn != "" && rn != "_" {
				e.vars[rn] = results[i]
				e.vtypes[rn] = res.At(i).Type()
			}
			e.vars[fmt.Sprintf("result%d", i)] = results[i]
			e.vtypes[fmt.Sprintf("result%d", i)] = res.At(i).Type()
		}
		if len(results) == 1 {
			e.vars["result"] = results[0]
			e.vtypes["result"] = res.At(0).Type()
		}
		return e
	}
	// preconditions
	if x.prog.implicitRecvNonNil(fn) && len(args) > 0 {
		if rt, ok := args[0].(*Term); ok {
			x.oblige(fr, st, "pre", shortKey(key)+":recv", con.frameTagsPlus(x.sweepTags), x.tt.Not(x.tt.Eq(rt, x.tt.IntLit(0))), "receiver of "+key+" must not be nil")
		}
	}
	if !x.isRedeemFunc(fn) {
		for i, pt := range ptypes {
			if i < len(args) && x.isLiveTrackedPtr(pt) {
				if at, ok := args[i].(*Term); ok {
					red := x.tt.Select(x.heap(st, "G$redeemed", arraySort("Int", "Bool")), at)
					x.oblige(fr, st, "pre", fmt.Sprintf("%s:live%d", shortKey(key), i), []string{"C04", "C05", "C11"}, x.tt.Or(x.tt.Eq(at, x.tt.IntLit(0)), x.tt.Not(red)), "argument "+fmt.Sprint(i)+" of "+key+" must be live (not redeemed)")
				}
			}
		}
	}
	for _, c := range con.Requires {
		g := x.evalBool(mkEnv(st, nil), c.Expr)
		x.oblige(fr, st, "pre", fmt.Sprintf("%s:%d", shortKey(key), c.Ord), c.Tags, g, "precondition of "+key+": "+c.Text)
	}
	// effects
	if con.Effects == "validation" {
		var recv *Term
		if fn.Signature.Recv() != nil && len(args) > 0 && x.isValidatorPtrType(ptypes[0]) {
			recv, _ = args[0].(*Term)
		}
		env := mkEnv(pre, nil)
		if recv != nil {
			x.addFact(x.tt.Implies(x.tt.Not(x.tt.Eq(recv, x.tt.IntLit(0))), x.descT(recv, recv)))
		}
		if os.Getenv("GOVC_DEBUG") != "" {
			fmt.Fprintf(os.Stderr, "debug: effects call %s at %s\n", key, x.posStr(x.curPos))
		}
		x.checkCallEffects(fr, st, pre, recv, key)
		x.noWriteCheck++
		x.applyValidationEffects(st, pre, recv)
		x.restoreSelf(fr, st, pre, recv, key)
		x.noWriteCheck--
		for _, m := range con.Modifies {
			x.havocLvalue(env, st, m)
		}
	} else if con.ModAll && len(con.Preserves) > 0 {
		x.havocAllKeeping(st, preservesKeep(con))
	} else if con.ModAll || (!con.HasModifies && !con.Extern && len(con.Ensures) == 0) {
		x.havocAll(st)
	} else {
		env := mkEnv(pre, nil)
		if con.Recycled {
			// the ghost pool state changes only at the object handed out (see the contract's ensures)
			x.noWriteCheck++
		}
		for _, m := range con.Modifies {
			x.havocLvalue(env, st, m)
		}
		if con.Recycled {
			x.noWriteCheck--
		}
		st.clk = x.advanceClk(st)
	}
	// panic edge
	if con.MayPanic {
		pb := x.tt.Fresh("panics$"+shortKey(key), "Bool")
		ps := st.clone()
		ps.pc = x.tt.And(st.pc, pb)
		for _, c := range con.PanicEnsures {
			x.curPC = ps.pc
			x.addFact(x.evalBool(mkEnv(ps, nil), c.Expr))
		}
		fr.panics = append(fr.panics, ps)
		st.pc = x.tt.And(st.pc, x.tt.Not(pb))
	}
	x.curPC = st.pc
	// results
	res := fn.Signature.Results()
	var results []Value
	for i := 0; i < res.Len(); i++ {
		v := x.fresh(fmt.Sprintf("r$%s.%d", shortKey(key), i), res.At(i).Type())
		results = append(results, v)
	}
	// whatever a call returns exists once the call has returned
	for i, rv := range results {
		x.assumeExisting(st, rv, res.At(i).Type())
		if rt, ok := rv.(*Term); ok && rt.Sort == "Int" && x.topEffects() && !x.quiet && len(x.prog.Cons.ValidatorTypes) > 0 {
			x.addFact(x.frameSoFar(x.topFrame, pre, rt))
		}
	}
	if con.FreshResult && len(results) > 0 {
		if r, ok := results[0].(*Term); ok && r.Sort == "Int" {
			x.addFact(x.tt.And(x.tt.Ge(x.tt.UF("birth$", "Int", r), pre.clk), x.tt.Gt(r, x.tt.IntLit(0)), x.tt.UF("isbase$", "Bool", r)))
		}
	}
	if con.Recycled && len(results) > 0 {
		x.noWriteCheck++
		x.applyRecycled(st, pre, asTerm(results[0]), res.At(0).Type())
		x.noWriteCheck--
		x.ownObjs[asTerm(results[0]).id] = true
	}
	for _, c := range con.AssumeResult {
		x.addFact(x.evalBool(mkEnv(st, results), c.Expr))
	}
	for _, c := range con.Ensures {
		if hasTag(c.Tags, "local") {
			continue // proved for the callee, deliberately not exported to callers (keeps callers' quantifier load small)
		}
		x.addFact(x.evalBool(mkEnv(st, results), c.Expr))
	}
	switch len(results) {
	case 0:
		return nil
	case 1:
		return results[0]
	}
	return &Agg{Elems: results, T: res}
}

// applyRecycled: r is an object handed out by a pool: non-nil, fresh or redeemed before, live now, fields unknown.
func (x *Exec) applyRecycled(st, pre *State, r *Term, T types.Type) {
	tt := x.tt
	gs := arraySort("Int", "Bool")
	gpre := x.heap(pre, "G$redeemed", gs)
	x.addFact(tt.And(tt.Gt(r, tt.IntLit(0)), tt.UF("isbase$", "Bool", r),
		tt.Or(tt.Ge(tt.UF("birth$", "Int", r), pre.clk), tt.Select(gpre, r))))
	g := x.heap(st, "G$redeemed", gs)
	st.heaps["G$redeemed"] = tt.Store(g, r, tt.False())
	x.recordWrite("G$redeemed", r)
	if pt, ok := T.Underlying().(*types.Pointer); ok {
		env := &Env{x: x, st: st, old: pre}
		isVal := x.isValidatorTypeName(typeName(pt.Elem()))
		for _, t := range env.cellTargets(r, pt.Elem()) {
			srt := x.heapSorts[t.heap]
			if srt == "" {
				srt = t.sort
			}
			h := x.heap(st, t.heap, srt)
			_, es := splitArraySort(srt)
			stale := tt.Fresh(t.heap+"@rec", es)
			st.heaps[t.heap] = tt.Store(h, t.idx, stale)
			x.recordWrite(t.heap, t.idx)
			if isVal && !x.quiet {
				x.recycledCells = append(x.recycledCells, recycledCell{obj: r, heap: t.heap, idx: t.idx, stale: stale, cond: x.curPC})
			}
		}
	}
}

// havocLvalue havocs the memory designated by a modifies expression, evaluated in env (pre-state).
func (x *Exec) havocLvalue(env *Env, st *State, e interface{}) {
	targets := env.lvalueTargets(e)
	for _, t := range targets {
		if t.whole {
			x.havocHeap(st, t.heap)
			continue
		}
		srt := x.heapSorts[t.heap]
		if srt == "" {
			srt = t.sort
		}
		h := x.heap(st, t.heap, srt)
		_, es := splitArraySort(srt)
		st.heaps[t.heap] = x.tt.Store(h, t.idx, x.tt.Fresh(t.heap+"@m", es))
		x.recordWrite(t.heap, t.idx)
	}
}

// ---------- builtins

func (x *Exec) doBuiltin(fr *Frame, st *State, b *ssa.Builtin, c *ssa.CallCommon, args []Value) Value {
	tt := x.tt
	switch b.Name() {
	case "len":
		a := asTerm(args[0])
		switch u := c.Args[0].Type().Underlying().(type) {
		case *types.Slice:
			return x.sLen(a)
		case *types.Basic:
			return x.strLen(a)
		case *types.Map:
			return x.mapLen(st, a, u)
		case *types.Array:
			return x.GoInt(u.Len())
		case *types.Pointer:
			return x.GoInt(u.Elem().Underlying().(*types.Array).Len())
		}
		return x.fresh("len", types.Typ[types.Int])
	case "cap":
		a := asTerm(args[0])
		if _, ok := c.Args[0].Type().Underlying().(*types.Slice); ok {
			return x.sCap(a)
		}
		return x.fresh("cap", types.Typ[types.Int])
	case "append":
		return x.doAppend(fr, st, asTerm(args[0]), args[1], c.Args[0].Type(), c.Args[1].Type())
	case "delete":
		x.mapDelete(st, asTerm(args[0]), c.Args[0].Type(), args[1])
		return nil
	case "copy":
		x.note("builtin copy (destination contents havocked)")
		if s, ok := c.Args[0].Type().Underlying().(*types.Slice); ok && !x.isAggType(s.Elem()) {
			x.havocHeap(st, "A$"+typeName(s.Elem()))
		}
		return x.fresh("copy", types.Typ[types.Int])
	case "panic":
		x.explicitPanic(fr, st, "panic")
		return nil
	case "print", "println":
		return nil
	case "recover":
		return tt.Lit("vnil", "Val")
	case "min", "max", "clear", "close", "real", "imag", "complex":
		x.note("builtin " + b.Name() + " (havocked)")
		if sig := c.Signature(); sig.Results().Len() > 0 {
			return x.freshResults(b.Name(), sig.Results())
		}
		return nil
	case "ssa:wrapnilchk":
		return args[0]
	}
	panic("builtin " + b.Name())
}

// append(s, t...)
func (x *Exec) doAppend(fr *Frame, st *State, s *Term, tv Value, sT, tT types.Type) Value {
	tt := x.tt
	et := sT.Underlying().(*types.Slice).Elem()
	t, ok := tv.(*Term)
	if !ok {
		panic("append: second arg")
	}
	if t.Sort == x.SS() {
		// append([]byte, string...)
		x.note("append of string bytes (havocked)")
		return x.fresh("append", sT)
	}
	if t.Sort == "Int" { // nil
		return s
	}
	ls, cs := x.sLen(s), x.sCap(s)
	lt := x.sLen(t)
	n := x.iadd(ls, lt)
	fits := x.iLe(n, cs)
	fresh := x.alloc(st, "arr")
	arr := tt.Ite(fits, x.sArr(s), fresh)
	if lt == x.GoInt(0) {
		return s
	}
	ncap := tt.Ite(fits, cs, asTerm(x.fresh("cap", types.Typ[types.Int])))
	if !isTrue(fits) {
		x.addFact(x.iLe(n, ncap))
	}
	res := x.mkSlice(arr, n, ncap)
	if x.isAggType(et) {
		// elements are structs addressed by ea$(arr,i): copy field-wise for literal small counts only
		if k, isLit := x.litInt(lt); isLit && k <= 4 {
			// realloc case: old elements must be copied too -> unsupported precisely; abstract
			x.note("append to slice of structs (old elements abstracted on reallocation)")
			for j := int64(0); j < k; j++ {
				src := x.elemAddr(x.sArr(t), x.GoInt(j))
				dst := x.elemAddr(arr, x.iadd(ls, x.GoInt(j)))
				x.store(st, dst, et, x.load(st, src, et))
			}
			return res
		}
		x.note("append of struct slices (contents abstracted)")
		return res
	}
	name := "A$" + typeName(et)
	es := x.sortOf(et)
	inner := arraySort("Int", es)
	srt := arraySort("Int", inner)
	h := x.heap(st, name, srt)
	src := tt.Select(h, x.sArr(s))
	tsrc := tt.Select(h, x.sArr(t))
	var dstInner *Term
	if k, isLit := x.litInt(lt); isLit && k <= 8 {
		dstInner = src
		for j := int64(0); j < k; j++ {
			dstInner = tt.Store(dstInner, x.toMathInt(x.iadd(ls, x.GoInt(j))), tt.Select(tsrc, tt.IntLit(j)))
		}
	} else {
		dstInner = tt.Fresh("appended", inner)
		i := tt.Bound("i", "Int")
		lsM, ltM := x.toMathInt(ls), x.toMathInt(lt)
		x.addFact(tt.Forall([]*Term{i}, tt.Implies(tt.And(tt.Le(tt.IntLit(0), i), tt.Lt(i, lsM)), tt.Eq(tt.Select(dstInner, i), tt.Select(src, i))), []*Term{tt.Select(dstInner, i)}))
		j := tt.Bound("j", "Int")
		x.addFact(tt.Forall([]*Term{j}, tt.Implies(tt.And(tt.Le(tt.IntLit(0), j), tt.Lt(j, ltM)), tt.Eq(tt.Select(dstInner, tt.Add(lsM, j)), tt.Select(tsrc, j))), []*Term{tt.Select(tsrc, j)}))
	}
	st.heaps[name] = tt.Store(h, arr, dstInner)
	x.recordWrite(name, arr)
	return res
}

func (x *Exec) litInt(t *Term) (int64, bool) {
	if v, ok := intVal(t); ok {
		return v.Int64(), true
	}
	if v, w, ok := bvVal(t); ok {
		return toSigned(v, w).Int64(), true
	}
	return 0, false
}
