package main

import (
	"fmt"
	"hash/fnv"
	"os"
	"go/token"
	"go/types"
	"math/big"
	"strings"

	"golang.org/x/tools/go/ssa"
)

// execBlock executes the non-phi instructions of b in state st and returns outgoing edges.
func (x *Exec) execBlock(fr *Frame, b *ssa.BasicBlock, st *State) []edge {
	for _, in := range b.Instrs {
		if _, ok := in.(*ssa.Phi); ok {
			continue
		}
		if isFalse(st.pc) {
			return nil
		}
		if p := in.Pos(); p.IsValid() {
			x.curPos = p
		}
		x.curPC = st.pc
		x.curFrame = fr
		x.curStateForOwner = st
		switch i := in.(type) {
		case *ssa.If:
			c := asTerm(x.val(fr, st, i.Cond))
			s1 := st.clone()
			s1.pc = x.tt.And(st.pc, c)
			s2 := st
			s2.pc = x.tt.And(st.pc, x.tt.Not(c))
			return []edge{{b, b.Succs[0], s1}, {b, b.Succs[1], s2}}
		case *ssa.Jump:
			return []edge{{b, b.Succs[0], st}}
		case *ssa.Return:
			vals := make([]Value, len(i.Results))
			for k, r := range i.Results {
				vals[k] = x.val(fr, st, r)
			}
			fr.rets = append(fr.rets, st)
			fr.retVals = append(fr.retVals, vals)
			return nil
		case *ssa.Panic:
			x.explicitPanic(fr, st, "panic")
			return nil
		default:
			x.execInstr(fr, st, in)
		}
	}
	return nil
}

func (x *Exec) explicitPanic(fr *Frame, st *State, what string) {
	// an explicit panic is a safety obligation unless the frame's contract allows panics
	top := fr
	for top.parent != nil {
		top = top.parent
	}
	allowed := false
	if c := x.prog.Cons.ByKey[funcKey(fr.fn)]; c != nil && c.MayPanic {
		allowed = true
	}
	if top.con != nil && top.con.MayPanic {
		allowed = true
	}
	if !allowed {
		x.oblige(fr, st, "safety", "explicit-"+what+"|"+x.lineAnchor(x.curPos), x.sweepTags, x.tt.False(), "explicit panic must be unreachable")
	}
	ps := st.clone()
	fr.panics = append(fr.panics, ps)
	st.pc = x.tt.False()
}

func (x *Exec) setReg(st *State, v ssa.Value, val Value) { st.regs[v] = val }

func (x *Exec) safety(fr *Frame, st *State, detail string, goal *Term, text string) {
	if x.inSpec > 0 {
		return
	}
	// anchor the obligation name to the content of the source line (stable under unrelated edits)
	x.oblige(fr, st, "safety", detail+"|"+x.lineAnchor(x.curPos), x.sweepTags, goal, text)
}

// guardedCheck: a load or store whose address lies inside a package-level variable declared `guarded v by m`
// needs the mutex m held (obligation class `guarded`, property C05: no unsynchronised access to shared state).
func (x *Exec) guardedCheck(fr *Frame, st *State, p *Term, what string) {
	if x.inSpec > 0 || len(x.prog.Cons.Guarded) == 0 {
		return
	}
	root := p
	for shapeOf(root) != shPlain && len(root.Args) > 0 {
		root = root.Args[0]
	}
	if root.Kind != KSym || !strings.HasPrefix(root.Op, "g$") {
		return
	}
	name := root.Op[strings.Index(root.Op, ".")+1:]
	mu, ok := x.prog.Cons.Guarded[name]
	if !ok {
		return
	}
	tt := x.tt
	muCell := tt.Sym(root.Op[:strings.Index(root.Op, ".")+1]+mu, "Int")
	mp := tt.Select(x.heap(st, "M$*sync.Mutex", arraySort("Int", "Int")), muCell)
	held := tt.Select(x.heap(st, "G$held", arraySort("Int", "Bool")), mp)
	x.oblige(fr, st, "guarded", name+"|"+what+"|"+x.lineAnchor(x.curPos), []string{"C05"}, held, what+" of "+name+" needs "+mu+" held")
}

// lineAnchor: a short readable digest of the source line at pos.
func (x *Exec) lineAnchor(pos token.Pos) string {
	if !pos.IsValid() {
		return "?"
	}
	ps := x.prog.Fset.Position(pos)
	lines, ok := x.prog.srcLines[ps.Filename]
	if !ok {
		data, err := os.ReadFile(ps.Filename)
		if err == nil {
			lines = strings.Split(string(data), "\n")
		}
		x.prog.srcLines[ps.Filename] = lines
	}
	if ps.Line-1 >= len(lines) || ps.Line < 1 {
		return "?"
	}
	t := strings.TrimSpace(lines[ps.Line-1])
	var sb strings.Builder
	for _, c := range t {
		if c == ' ' || c == '\t' {
			continue
		}
		if c == '(' || c == ')' || c == '#' || c == '/' {
			c = '_'
		}
		sb.WriteRune(c)
		if sb.Len() >= 40 {
			break
		}
	}
	h := fnv.New32a()
	h.Write([]byte(t))
	return fmt.Sprintf("%s~%04x", sb.String(), h.Sum32()&0xffff)
}

func (x *Exec) nonNil(fr *Frame, st *State, p *Term, what string) {
	if p.Kind == KApp && (p.Op == "ea$" || strings.HasPrefix(p.Op, "fa$")) {
		return
	}
	if p.Kind == KSym && (strings.HasPrefix(p.Op, "new$") || strings.HasPrefix(p.Op, "g$")) {
		return
	}
	x.safety(fr, st, "nil-deref", x.tt.Not(x.tt.Eq(p, x.tt.IntLit(0))), what)
}

func (x *Exec) execInstr(fr *Frame, st *State, in ssa.Instruction) {
	tt := x.tt
	switch i := in.(type) {
	case *ssa.DebugRef:
		if id, ok := i.Expr.(interface{ String() string }); ok {
			_ = id
		}
		if i.IsAddr {
			return
		}
		if name := debugName(i); name != "" {
			if v, ok := st.regs[i.X]; ok {
				if os.Getenv("GOVC_DEBUG") != "" {
					fmt.Fprintf(os.Stderr, "debugref %s = %v (%s)\n", name, v, i.X.Name())
				}
				st.names[name] = v
				x.nameTypes[name] = i.X.Type()
			} else if c, ok := i.X.(*ssa.Const); ok {
				// go/ssa may emit a zero-valued debug reference at the defining identifier of `x := <composite literal>`
				// before the value exists; such a reference must not bind the name (the value is found through later references).
				if x.hasNonConstDebugRef(fr.fn, name) {
					delete(st.names, name)
				} else {
					st.names[name] = x.constVal(c)
					x.nameTypes[name] = i.X.Type()
				}
			}
		}
	case *ssa.Alloc:
		T := i.Type().(*types.Pointer).Elem()
		r := x.alloc(st, i.Name())
		if !x.isAggType(T) && x.nonEscapingAlloc(i) {
			x.localCells[r.id] = "L$" + shortKey(funcKey(fr.fn)) + "$" + i.Name()
		}
		x.initObject(st, r, T)
		x.assumeObjKind(r, i.Type())
		x.setReg(st, i, r)
	case *ssa.UnOp:
		x.execUnOp(fr, st, i)
	case *ssa.BinOp:
		a, b := x.val(fr, st, i.X), x.val(fr, st, i.Y)
		x.setReg(st, i, x.binop(fr, st, i.Op, a, b, i.X.Type(), i.Y.Type(), i.Type()))
	case *ssa.Store:
		p := asTerm(x.val(fr, st, i.Addr))
		x.nonNil(fr, st, p, "store through nil pointer")
		x.guardedCheck(fr, st, p, "store")
		T := i.Addr.Type().Underlying().(*types.Pointer).Elem()
		x.storeVia(st, p, T, x.val(fr, st, i.Val))
	case *ssa.FieldAddr:
		p := asTerm(x.val(fr, st, i.X))
		x.nonNil(fr, st, p, "field address of nil pointer")
		T := i.X.Type().Underlying().(*types.Pointer).Elem()
		x.liveCheck(fr, st, p, T)
		x.setReg(st, i, x.fieldAddr(p, T, i.Field))
	case *ssa.Field:
		a := x.val(fr, st, i.X).(*Agg)
		x.setReg(st, i, a.Elems[i.Field])
	case *ssa.IndexAddr:
		xv := asTerm(x.val(fr, st, i.X))
		idx := asTerm(x.val(fr, st, i.Index))
		idx = x.toInt(idx, i.Index.Type())
		switch u := i.X.Type().Underlying().(type) {
		case *types.Slice:
			x.safety(fr, st, "index", tt.And(x.iLe(x.GoInt(0), idx), x.iLt(idx, x.sLen(xv))), "slice index in range")
			x.setReg(st, i, x.elemAddr(x.sArr(xv), idx))
		case *types.Pointer:
			arr := u.Elem().Underlying().(*types.Array)
			x.nonNil(fr, st, xv, "index of nil array pointer")
			x.safety(fr, st, "index", tt.And(x.iLe(x.GoInt(0), idx), x.iLt(idx, x.GoInt(arr.Len()))), "array index in range")
			x.setReg(st, i, x.elemAddr(xv, idx))
		default:
			panic("IndexAddr on " + i.X.Type().String())
		}
	case *ssa.Index:
		switch xv := x.val(fr, st, i.X).(type) {
		case *Agg:
			idx := x.toInt(asTerm(x.val(fr, st, i.Index)), i.Index.Type())
			x.safety(fr, st, "index", tt.And(x.iLe(x.GoInt(0), idx), x.iLt(idx, x.GoInt(int64(len(xv.Elems))))), "array index in range")
			var r Value = xv.Elems[len(xv.Elems)-1]
			for k := len(xv.Elems) - 2; k >= 0; k-- {
				r = x.iteVal(x.intEq(idx, x.GoInt(int64(k))), xv.Elems[k], r)
			}
			x.setReg(st, i, r)
		case *Term:
			// string index
			idx := x.toInt(asTerm(x.val(fr, st, i.Index)), i.Index.Type())
			x.safety(fr, st, "index", tt.And(x.iLe(x.GoInt(0), idx), x.iLt(idx, x.strLen(xv))), "string index in range")
			x.setReg(st, i, x.fresh("byte", i.Type()))
		}
	case *ssa.Lookup:
		x.execLookup(fr, st, i)
	case *ssa.MapUpdate:
		m := asTerm(x.val(fr, st, i.Map))
		x.safety(fr, st, "nil-map-write", tt.Not(tt.Eq(m, tt.IntLit(0))), "assignment to entry in nil map")
		if _, used := x.heapSorts["G$published"]; used || x.prog.Cons.UsesPublished {
			pub := tt.Select(x.heap(st, "G$published", arraySort("Int", "Bool")), m)
			x.oblige(fr, st, "published-immutable", x.lineAnchor(x.curPos), []string{"C05", "C15"}, tt.Not(pub), "a map that has been published through atomic.Value is never updated in place")
		}
		x.mapUpdate(st, m, i.Map.Type(), x.val(fr, st, i.Key), x.val(fr, st, i.Value))
	case *ssa.MakeMap:
		r := x.alloc(st, "map")
		mt := i.Type().Underlying().(*types.Map)
		dn, ds := x.mapDomHeap(mt)
		h := x.heap(st, dn, ds)
		_, inner := splitArraySort(ds)
		st.heaps[dn] = tt.Store(h, r, tt.ConstArray(inner, tt.False()))
		if _, used := x.heapSorts["G$published"]; used || x.prog.Cons.UsesPublished {
			// a map that has just been made has not been published through an atomic.Value
			x.addFact(tt.Not(tt.Select(x.heap(st, "G$published", arraySort("Int", "Bool")), r)))
		}
		x.setReg(st, i, r)
	case *ssa.MakeSlice:
		ln := x.toInt(asTerm(x.val(fr, st, i.Len)), i.Len.Type())
		cp := x.toInt(asTerm(x.val(fr, st, i.Cap)), i.Cap.Type())
		x.safety(fr, st, "makeslice", tt.And(x.iLe(x.GoInt(0), ln), x.iLe(ln, cp)), "makeslice: len out of range")
		r := x.alloc(st, "arr")
		et := i.Type().Underlying().(*types.Slice).Elem()
		if !x.isAggType(et) {
			name := "A$" + typeName(et)
			srt := arraySort("Int", arraySort("Int", x.sortOf(et)))
			h := x.heap(st, name, srt)
			st.heaps[name] = tt.Store(h, r, tt.ConstArray(arraySort("Int", x.sortOf(et)), asTerm(x.zero(et))))
		}
		x.setReg(st, i, x.mkSlice(r, ln, cp))
	case *ssa.Slice:
		x.execSlice(fr, st, i)
	case *ssa.MakeInterface:
		x.setReg(st, i, x.makeIface(st, x.val(fr, st, i.X), i.X.Type()))
	case *ssa.ChangeInterface:
		x.setReg(st, i, x.val(fr, st, i.X))
	case *ssa.ChangeType:
		x.setReg(st, i, x.val(fr, st, i.X))
	case *ssa.Convert:
		x.setReg(st, i, x.convert(fr, st, x.val(fr, st, i.X), i.X.Type(), i.Type()))
	case *ssa.TypeAssert:
		x.execTypeAssert(fr, st, i)
	case *ssa.Extract:
		t := x.val(fr, st, i.Tuple).(*Agg)
		x.setReg(st, i, t.Elems[i.Index])
	case *ssa.MakeClosure:
		c := &Closure{Fn: i.Fn.(*ssa.Function)}
		for _, b := range i.Bindings {
			c.Bind = append(c.Bind, x.val(fr, st, b))
		}
		x.setReg(st, i, c)
	case *ssa.Call:
		res := x.doCall(fr, st, i.Common(), i, false)
		if i.Type() != nil {
			if tup, ok := i.Type().(*types.Tuple); ok && tup.Len() == 0 {
				return
			}
		}
		x.setReg(st, i, res)
	case *ssa.Defer:
		d := deferRec{guard: tt.True(), instr: i}
		c := i.Common()
		if c.IsInvoke() {
			d.fn = nil
			d.args = append(d.args, x.val(fr, st, c.Value))
		} else if c.StaticCallee() == nil {
			d.fn = x.val(fr, st, c.Value)
		} else if _, ok := c.Value.(*ssa.MakeClosure); ok {
			d.fn = x.val(fr, st, c.Value)
		}
		for _, a := range c.Args {
			d.args = append(d.args, x.val(fr, st, a))
		}
		st.defers = append(st.defers, d)
	case *ssa.RunDefers:
		ns := x.runDefers(fr, st, false)
		*st = *ns
	case *ssa.Range:
		x.execRange(fr, st, i)
	case *ssa.Next:
		x.execNext(fr, st, i)
	case *ssa.Go:
		x.unsupported = append(x.unsupported, "go statement")
		x.note("go statement (not modelled)")
	case *ssa.Send, *ssa.Select:
		x.note("channel operation (not modelled)")
	case *ssa.MakeChan:
		x.setReg(st, i, x.alloc(st, "chan"))
	case *ssa.SliceToArrayPointer:
		x.setReg(st, i, x.fresh("conv", i.Type()))
		x.note("unsupported conversion (havocked)")
	case *ssa.MultiConvert:
		x.setReg(st, i, x.fresh("conv", i.Type()))
		x.note("unsupported conversion (havocked)")
	default:
		panic(fmt.Sprintf("unsupported instruction %T: %s", in, in))
	}
}

func debugName(d *ssa.DebugRef) string {
	switch e := d.Expr.(type) {
	case interface{ String() string }:
		s := e.String()
		if strings.ContainsAny(s, ".()[] ") {
			return ""
		}
		return s
	}
	return ""
}

// nonEscapingAlloc: the cell is only loaded, stored to, captured by closures of this package, or debug-referenced.
func (x *Exec) nonEscapingAlloc(a *ssa.Alloc) bool {
	refs := a.Referrers()
	if refs == nil {
		return false
	}
	for _, r := range *refs {
		switch u := r.(type) {
		case *ssa.UnOp:
			if u.Op != token.MUL {
				return false
			}
		case *ssa.Store:
			if u.Val == a {
				return false
			}
		case *ssa.DebugRef:
		case *ssa.MakeClosure:
		default:
			return false
		}
	}
	return true
}

// storeVia handles local cells.
func (x *Exec) storeVia(st *State, p *Term, T types.Type, v Value) {
	if name, ok := x.localCells[p.id]; ok {
		srt := x.sortOf(T)
		tv, isT := v.(*Term)
		if !isT {
			// closure stored into a local cell: keep engine-level value in names
			st.names["$cell:"+name] = v
			return
		}
		h := x.heap(st, name, arraySort("Int", srt))
		st.heaps[name] = x.tt.Store(h, p, tv)
		return
	}
	x.store(st, p, T, v)
}

func (x *Exec) loadVia(st *State, p *Term, T types.Type) Value {
	if name, ok := x.localCells[p.id]; ok {
		if v, ok := st.names["$cell:"+name]; ok {
			return v
		}
		h := x.heap(st, name, arraySort("Int", x.sortOf(T)))
		return x.tt.Select(h, p)
	}
	return x.load(st, p, T)
}

func (x *Exec) execUnOp(fr *Frame, st *State, i *ssa.UnOp) {
	tt := x.tt
	v := x.val(fr, st, i.X)
	switch i.Op {
	case token.MUL: // load
		p := asTerm(v)
		x.nonNil(fr, st, p, "load through nil pointer")
		x.guardedCheck(fr, st, p, "load")
		x.setReg(st, i, x.loadVia(st, p, i.Type()))
	case token.NOT:
		x.setReg(st, i, tt.Not(asTerm(v)))
	case token.SUB:
		t := asTerm(v)
		if _, isF := isFloat(i.Type()); isF {
			x.setReg(st, i, tt.App("fp.neg", t.Sort, t))
		} else if x.bv {
			x.setReg(st, i, tt.App("bvneg", t.Sort, t))
		} else {
			x.setReg(st, i, x.wrapInt(tt.Sub(tt.IntLit(0), t), i.Type()))
		}
	case token.XOR:
		t := asTerm(v)
		if x.bv {
			x.setReg(st, i, tt.App("bvnot", t.Sort, t))
		} else {
			x.setReg(st, i, x.fresh("xor", i.Type()))
		}
	case token.ARROW:
		x.setReg(st, i, x.fresh("recv", i.Type()))
	default:
		panic("unop " + i.Op.String())
	}
}

// wrapInt: in math mode we treat arithmetic as mathematical (assumption reported); no wrap.
func (x *Exec) wrapInt(t *Term, T types.Type) *Term { return t }

func (x *Exec) toInt(t *Term, T types.Type) *Term {
	// convert an integer-typed index value to Go int representation
	if !x.bv {
		return t
	}
	bits, signed, _ := intInfo(T)
	if bits == 64 {
		return t
	}
	if signed {
		return x.tt.App(fmt.Sprintf("(_ sign_extend %d)", 64-bits), bvSort(64), t)
	}
	return x.tt.App(fmt.Sprintf("(_ zero_extend %d)", 64-bits), bvSort(64), t)
}

func (x *Exec) intEq(a, b *Term) *Term { return x.tt.Eq(a, b) }

func (x *Exec) strLen(s *Term) *Term {
	if !x.strTheory {
		if lit, ok := x.strLits[s.Op]; ok && s.Kind == KSym {
			return x.GoInt(int64(len(lit)))
		}
		l := x.tt.UF("strlen$", "Int", s)
		if !x.addrSeen[-l.id-2000000] {
			x.addrSeen[-l.id-2000000] = true
			x.addPermFact(x.tt.And(x.tt.Ge(l, x.tt.IntLit(0)), x.tt.Le(l, x.tt.IntLit(1<<40))))
		}
		if x.bv {
			return x.tt.App("(_ int2bv 64)", bvSort(64), l)
		}
		return l
	}
	l := x.tt.App("str.len", "Int", s)
	if s.Kind == KLit {
		// constant string: count bytes
		n := smtLitLen(s.Op)
		return x.GoInt(int64(n))
	}
	if x.bv {
		return x.tt.App("(_ int2bv 64)", bvSort(64), l)
	}
	return l
}

func smtLitLen(lit string) int {
	body := lit[1 : len(lit)-1]
	n := 0
	for i := 0; i < len(body); {
		if body[i] == '"' && i+1 < len(body) && body[i+1] == '"' {
			i += 2
			n++
			continue
		}
		if strings.HasPrefix(body[i:], `\u{`) {
			j := strings.IndexByte(body[i:], '}')
			i += j + 1
			n++
			continue
		}
		i++
		n++
	}
	return n
}

func (x *Exec) binop(fr *Frame, st *State, op token.Token, av, bv Value, at, bt, rt types.Type) Value {
	tt := x.tt
	// aggregates: only == and !=
	if _, ok := av.(*Agg); ok {
		e := x.eqVal(av, bv)
		if op == token.NEQ {
			return tt.Not(e)
		}
		return e
	}
	if _, ok := av.(*Closure); ok {
		return x.fresh("fncmp", rt)
	}
	if _, ok := bv.(*Closure); ok {
		return x.fresh("fncmp", rt)
	}
	a, b := asTerm(av), asTerm(bv)
	// nil constants of pointer-like sorts come as Int 0; interface nil -> vnil
	if a.Sort != b.Sort {
		if a.Sort == "Val" && b.Sort == "Int" {
			b = tt.Lit("vnil", "Val")
		} else if b.Sort == "Val" && a.Sort == "Int" {
			a = tt.Lit("vnil", "Val")
		} else if a.Sort == "Slice" && b.Sort == "Int" {
			// slice == nil
			e := tt.Eq(x.sArr(a), tt.IntLit(0))
			if op == token.NEQ {
				return tt.Not(e)
			}
			return e
		} else if b.Sort == "Slice" && a.Sort == "Int" {
			e := tt.Eq(x.sArr(b), tt.IntLit(0))
			if op == token.NEQ {
				return tt.Not(e)
			}
			return e
		}
	}
	if _, isF := isFloat(at); isF {
		return x.floatBinop(op, a, b)
	}
	switch a.Sort {
	case "Bool":
		switch op {
		case token.EQL:
			return tt.Eq(a, b)
		case token.NEQ:
			return tt.Not(tt.Eq(a, b))
		case token.AND, token.LAND:
			return tt.And(a, b)
		case token.OR, token.LOR:
			return tt.Or(a, b)
		}
	case "String", "Str":
		switch op {
		case token.EQL:
			return tt.Eq(a, b)
		case token.NEQ:
			return tt.Not(tt.Eq(a, b))
		case token.ADD:
			return x.strConcat(a, b)
		}
		if !x.strTheory {
			lt := func(p, q *Term) *Term { return tt.UF("strlt$", "Bool", p, q) }
			switch op {
			case token.LSS:
				return lt(a, b)
			case token.LEQ:
				return tt.Or(lt(a, b), tt.Eq(a, b))
			case token.GTR:
				return lt(b, a)
			case token.GEQ:
				return tt.Or(lt(b, a), tt.Eq(a, b))
			}
		}
		switch op {
		case token.LSS:
			return tt.App("str.<", "Bool", a, b)
		case token.LEQ:
			return tt.App("str.<=", "Bool", a, b)
		case token.GTR:
			return tt.App("str.<", "Bool", b, a)
		case token.GEQ:
			return tt.App("str.<=", "Bool", b, a)
		}
	case "Val", "Slice":
		switch op {
		case token.EQL:
			return x.ifaceEq(a, b)
		case token.NEQ:
			return tt.Not(x.ifaceEq(a, b))
		}
	}
	if _, _, isI := intInfo(at); isI || a.Sort == "Int" {
		if _, _, ok := intInfo(at); !ok {
			// pointers etc.
			switch op {
			case token.EQL:
				return tt.Eq(a, b)
			case token.NEQ:
				return tt.Not(tt.Eq(a, b))
			}
		}
		return x.intBinop(fr, st, op, a, b, at, bt)
	}
	panic(fmt.Sprintf("binop %s on sorts %s,%s", op, a.Sort, b.Sort))
}

func (x *Exec) ifaceEq(a, b *Term) *Term {
	return x.tt.Eq(a, b)
}

func (x *Exec) strConcat(a, b *Term) *Term {
	e := x.StrLit("")
	if a == e {
		return b
	}
	if b == e {
		return a
	}
	if !x.strTheory {
		return x.tt.UF("strcat$", "Str", a, b)
	}
	return x.tt.App("str.++", x.SS(), a, b)
}

// string theory operations with uninterpreted fall-backs
func (x *Exec) strOp(op string, sort string, args ...*Term) *Term {
	if !x.strTheory {
		name := strings.ReplaceAll(op, ".", "_") + "$"
		if sort == "String" {
			sort = "Str"
		}
		return x.tt.UF(name, sort, args...)
	}
	return x.tt.App(op, sort, args...)
}

func (x *Exec) floatBinop(op token.Token, a, b *Term) Value {
	tt := x.tt
	rm := tt.Lit("RNE", "RoundingMode")
	switch op {
	case token.ADD:
		return tt.App("fp.add", a.Sort, rm, a, b)
	case token.SUB:
		return tt.App("fp.sub", a.Sort, rm, a, b)
	case token.MUL:
		return tt.App("fp.mul", a.Sort, rm, a, b)
	case token.QUO:
		return tt.App("fp.div", a.Sort, rm, a, b)
	case token.EQL:
		return tt.App("fp.eq", "Bool", a, b)
	case token.NEQ:
		return tt.Not(tt.App("fp.eq", "Bool", a, b))
	case token.LSS:
		return tt.App("fp.lt", "Bool", a, b)
	case token.LEQ:
		return tt.App("fp.leq", "Bool", a, b)
	case token.GTR:
		return tt.App("fp.gt", "Bool", a, b)
	case token.GEQ:
		return tt.App("fp.geq", "Bool", a, b)
	}
	panic("float binop " + op.String())
}

func (x *Exec) intBinop(fr *Frame, st *State, op token.Token, a, b *Term, at, bt types.Type) Value {
	tt := x.tt
	_, signed, _ := intInfo(at)
	if x.bv {
		if a.Sort != b.Sort && (op == token.SHL || op == token.SHR) {
			// shift count of different width: adjust
			wa, wb := bvWidth(a.Sort), bvWidth(b.Sort)
			if wb < wa {
				b = tt.App(fmt.Sprintf("(_ zero_extend %d)", wa-wb), a.Sort, b)
			} else if wb > wa {
				b = tt.App(fmt.Sprintf("(_ extract %d 0)", wa-1), a.Sort, b)
			}
		}
		s := a.Sort
		switch op {
		case token.ADD:
			return x.bvFold("bvadd", a, b, s)
		case token.SUB:
			return x.bvFold("bvsub", a, b, s)
		case token.MUL:
			return x.bvFold("bvmul", a, b, s)
		case token.QUO:
			x.safety(fr, st, "div-by-zero", tt.Not(tt.Eq(b, tt.BVLit(big.NewInt(0), bvWidth(s)))), "integer divide by zero")
			if signed {
				return tt.App("bvsdiv", s, a, b)
			}
			return tt.App("bvudiv", s, a, b)
		case token.REM:
			x.safety(fr, st, "div-by-zero", tt.Not(tt.Eq(b, tt.BVLit(big.NewInt(0), bvWidth(s)))), "integer divide by zero")
			if signed {
				return tt.App("bvsrem", s, a, b)
			}
			return tt.App("bvurem", s, a, b)
		case token.AND:
			return tt.App("bvand", s, a, b)
		case token.OR:
			return tt.App("bvor", s, a, b)
		case token.XOR:
			return tt.App("bvxor", s, a, b)
		case token.SHL:
			return tt.App("bvshl", s, a, b)
		case token.SHR:
			if signed {
				return tt.App("bvashr", s, a, b)
			}
			return tt.App("bvlshr", s, a, b)
		case token.AND_NOT:
			return tt.App("bvand", s, a, tt.App("bvnot", s, b))
		case token.EQL:
			return tt.Eq(a, b)
		case token.NEQ:
			return tt.Not(tt.Eq(a, b))
		case token.LSS:
			if signed {
				return x.bvCmp("bvslt", a, b)
			}
			return x.bvCmp("bvult", a, b)
		case token.LEQ:
			if signed {
				return x.bvCmp("bvsle", a, b)
			}
			return x.bvCmp("bvule", a, b)
		case token.GTR:
			if signed {
				return x.bvCmp("bvslt", b, a)
			}
			return x.bvCmp("bvult", b, a)
		case token.GEQ:
			if signed {
				return x.bvCmp("bvsle", b, a)
			}
			return x.bvCmp("bvule", b, a)
		}
		panic("bv binop " + op.String())
	}
	switch op {
	case token.ADD:
		return tt.Add(a, b)
	case token.SUB:
		return tt.Sub(a, b)
	case token.MUL:
		return tt.Mul(a, b)
	case token.QUO:
		x.safety(fr, st, "div-by-zero", tt.Not(tt.Eq(b, tt.IntLit(0))), "integer divide by zero")
		return tt.App("go_quo", "Int", a, b)
	case token.REM:
		x.safety(fr, st, "div-by-zero", tt.Not(tt.Eq(b, tt.IntLit(0))), "integer divide by zero")
		return tt.App("go_rem", "Int", a, b)
	case token.EQL:
		return tt.Eq(a, b)
	case token.NEQ:
		return tt.Not(tt.Eq(a, b))
	case token.LSS:
		return tt.Lt(a, b)
	case token.LEQ:
		return tt.Le(a, b)
	case token.GTR:
		return tt.Gt(a, b)
	case token.GEQ:
		return tt.Ge(a, b)
	case token.AND, token.OR, token.XOR, token.SHL, token.SHR, token.AND_NOT:
		x.note("bit operation in math mode (havocked)")
		return x.fresh("bitop", at)
	}
	panic("int binop " + op.String())
}

func (x *Exec) bvFold(op string, a, b *Term, s string) *Term {
	av, w, ok1 := bvVal(a)
	bv_, _, ok2 := bvVal(b)
	if ok1 && ok2 {
		r := new(big.Int)
		switch op {
		case "bvadd":
			r.Add(av, bv_)
		case "bvsub":
			r.Sub(av, bv_)
		case "bvmul":
			r.Mul(av, bv_)
		}
		return x.tt.BVLit(r, w)
	}
	return x.tt.App(op, s, a, b)
}

// convert implements ssa.Convert between basic types.
func (x *Exec) convert(fr *Frame, st *State, v Value, from, to types.Type) Value {
	tt := x.tt
	a, ok := v.(*Term)
	if !ok {
		return v
	}
	fb, fs, fromInt := intInfo(from)
	tb, ts, toInt := intInfo(to)
	ff, fromF := isFloat(from)
	tf, toF := isFloat(to)
	rm := tt.Lit("RNE", "RoundingMode")
	switch {
	case fromInt && toInt:
		if !x.bv {
			if fb <= tb && fs == ts || (fb < tb && !fs) {
				return a // value preserving
			}
			x.note("narrowing/sign-changing integer conversion in math mode (wrap-around not modelled; value assumed in range)")
			return a
		}
		switch {
		case tb == fb:
			return a
		case tb < fb:
			return tt.App(fmt.Sprintf("(_ extract %d 0)", tb-1), bvSort(tb), a)
		case fs:
			return tt.App(fmt.Sprintf("(_ sign_extend %d)", tb-fb), bvSort(tb), a)
		default:
			return tt.App(fmt.Sprintf("(_ zero_extend %d)", tb-fb), bvSort(tb), a)
		}
	case fromInt && toF:
		srt := sF64
		eb, sb := 11, 53
		if tf == 32 {
			srt, eb, sb = sF32, 8, 24
		}
		if x.bv {
			if fs {
				return tt.App(fmt.Sprintf("(_ to_fp %d %d)", eb, sb), srt, rm, a)
			}
			return tt.App(fmt.Sprintf("(_ to_fp_unsigned %d %d)", eb, sb), srt, rm, a)
		}
		return tt.App(fmt.Sprintf("(_ to_fp %d %d)", eb, sb), srt, rm, tt.App("to_real", "Real", a))
	case fromF && toInt:
		if x.bv {
			rtz := tt.Lit("RTZ", "RoundingMode")
			var conv, inRange *Term
			lo, hi := new(big.Int), new(big.Int)
			if ts {
				conv = tt.App(fmt.Sprintf("(_ fp.to_sbv %d)", tb), bvSort(tb), rtz, a)
				lo.Lsh(big.NewInt(1), uint(tb-1))
				lo.Neg(lo)
				hi.Lsh(big.NewInt(1), uint(tb-1))
			} else {
				conv = tt.App(fmt.Sprintf("(_ fp.to_ubv %d)", tb), bvSort(tb), rtz, a)
				hi.Lsh(big.NewInt(1), uint(tb))
				lo.SetInt64(-1)
			}
			// in range iff lo-1 < trunc(a) < hi  <=>  lo - 1 < a < hi  (for signed: a > lo-1 ; for unsigned a > -1)
			flo, _ := new(big.Float).SetInt(lo).Float64()
			fhi, _ := new(big.Float).SetInt(hi).Float64()
			var loT, hiT *Term
			if ff == 32 {
				loT, hiT = x.f32Lit(float32(flo)), x.f32Lit(float32(fhi))
			} else {
				loT, hiT = x.f64Lit(flo), x.f64Lit(fhi)
			}
			if ts {
				// a >= lo (lo is exactly representable) and a < hi
				inRange = tt.And(tt.App("fp.geq", "Bool", a, loT), tt.App("fp.lt", "Bool", a, hiT))
			} else {
				inRange = tt.And(tt.App("fp.gt", "Bool", a, loT), tt.App("fp.lt", "Bool", a, hiT))
			}
			// out of range (incl. NaN): amd64 yields 0x8000... for 64-bit signed; for others implementation-specific -> unknown
			var oor *Term
			if ts && tb == 64 {
				oor = tt.BVLit(new(big.Int).Lsh(big.NewInt(1), 63), 64)
			} else {
				oor = tt.UF(fmt.Sprintf("f2i_oor$%d$%v$%d", tb, ts, ff), bvSort(tb), a)
			}
			return tt.Ite(inRange, conv, oor)
		}
		x.note("float to int conversion in math mode (havocked)")
		return x.fresh("f2i", to)
	case fromF && toF:
		if ff == tf {
			return a
		}
		if tf == 64 {
			return tt.App("(_ to_fp 11 53)", sF64, rm, a)
		}
		return tt.App("(_ to_fp 8 24)", sF32, rm, a)
	}
	// string <-> []byte, int -> string etc.
	fsort, tsort := x.sortOf(from), x.sortOf(to)
	if fsort == tsort {
		return a
	}
	x.note(fmt.Sprintf("conversion %s -> %s havocked", typeName(from), typeName(to)))
	return x.fresh("conv", to)
}

func (x *Exec) execSlice(fr *Frame, st *State, i *ssa.Slice) {
	tt := x.tt
	xv := asTerm(x.val(fr, st, i.X))
	var lo, hi, mx *Term
	if i.Low != nil {
		lo = x.toInt(asTerm(x.val(fr, st, i.Low)), i.Low.Type())
	}
	if i.High != nil {
		hi = x.toInt(asTerm(x.val(fr, st, i.High)), i.High.Type())
	}
	if i.Max != nil {
		mx = x.toInt(asTerm(x.val(fr, st, i.Max)), i.Max.Type())
	}
	zero := x.GoInt(0)
	switch u := i.X.Type().Underlying().(type) {
	case *types.Basic: // string
		ln := x.strLen(xv)
		if lo == nil {
			lo = zero
		}
		if hi == nil {
			hi = ln
		}
		x.safety(fr, st, "slice-bounds", tt.And(x.iLe(zero, lo), x.iLe(lo, hi), x.iLe(hi, ln)), "string slice bounds")
		if x.bv {
			x.setReg(st, i, x.fresh("substr", i.Type()))
			return
		}
		x.setReg(st, i, x.strOp("str.substr", "String", xv, lo, tt.Sub(hi, lo)))
	case *types.Slice:
		ln, cp := x.sLen(xv), x.sCap(xv)
		if lo == nil {
			lo = zero
		}
		if hi == nil {
			hi = ln
		}
		if mx == nil {
			mx = cp
		}
		x.safety(fr, st, "slice-bounds", tt.And(x.iLe(zero, lo), x.iLe(lo, hi), x.iLe(hi, mx), x.iLe(mx, cp)), "slice bounds")
		if lo == zero {
			x.setReg(st, i, x.mkSlice(x.sArr(xv), hi, mx))
			return
		}
		// re-slicing with an offset: new view with unknown identity (content abstracted)
		x.note("reslice with non-zero low bound (contents abstracted)")
		r := x.alloc(st, "reslice")
		x.setReg(st, i, x.mkSlice(r, x.isub(hi, lo), x.isub(mx, lo)))
	case *types.Pointer:
		arr := u.Elem().Underlying().(*types.Array)
		n := x.GoInt(arr.Len())
		x.nonNil(fr, st, xv, "slice of nil array pointer")
		if lo == nil {
			lo = zero
		}
		if hi == nil {
			hi = n
		}
		if mx == nil {
			mx = n
		}
		x.safety(fr, st, "slice-bounds", tt.And(x.iLe(zero, lo), x.iLe(lo, hi), x.iLe(hi, mx), x.iLe(mx, n)), "slice bounds")
		if lo == zero {
			x.setReg(st, i, x.mkSlice(xv, hi, mx))
			return
		}
		x.note("reslice with non-zero low bound (contents abstracted)")
		r := x.alloc(st, "reslice")
		x.setReg(st, i, x.mkSlice(r, x.isub(hi, lo), x.isub(mx, lo)))
	default:
		panic("slice of " + i.X.Type().String())
	}
}

func (x *Exec) isub(a, b *Term) *Term {
	if x.bv {
		return x.bvFold("bvsub", a, b, a.Sort)
	}
	return x.tt.Sub(a, b)
}
func (x *Exec) iadd(a, b *Term) *Term {
	if x.bv {
		return x.bvFold("bvadd", a, b, a.Sort)
	}
	return x.tt.Add(a, b)
}

// ---- interfaces

func (x *Exec) tidLit(T types.Type) *Term {
	id := x.prog.tid(T)
	x.tidsUsed[id] = true
	return x.tt.IntLit(int64(id))
}

func (x *Exec) to64(t *Term, T types.Type) *Term {
	if !x.bv {
		return t
	}
	return x.toInt(t, T)
}

func (x *Exec) from64(t *Term, T types.Type) *Term {
	if !x.bv {
		return t
	}
	bits, _, _ := intInfo(T)
	if bits == 64 {
		return t
	}
	return x.tt.App(fmt.Sprintf("(_ extract %d 0)", bits-1), bvSort(bits), t)
}

func (x *Exec) makeIface(st *State, v Value, T types.Type) *Term {
	tt := x.tt
	if _, isI := T.Underlying().(*types.Interface); isI {
		return asTerm(v)
	}
	tid := x.tidLit(T)
	if isNamed(T, "reflect", "Value") {
		return tt.Ctor("vother", "Val", tid, tt.Fresh("oid", "Int"))
	}
	if isNamed(T, "reflect", "Type") {
		return asTerm(v).mustVal(x)
	}
	t, ok := v.(*Term)
	if !ok {
		// struct / array / closure
		return tt.Ctor("vother", "Val", tid, tt.Fresh("oid", "Int"))
	}
	switch kindOfType(T) {
	case kBool:
		return tt.Ctor("vbool", "Val", tid, t)
	case kInt, kInt8, kInt16, kInt32, kInt64:
		return tt.Ctor("vint", "Val", tid, x.to64(t, T))
	case kUint, kUint8, kUint16, kUint32, kUint64, kUintptr:
		return tt.Ctor("vuint", "Val", tid, x.to64(t, T))
	case kFloat64:
		return tt.Ctor("vf64", "Val", tid, t)
	case kFloat32:
		return tt.Ctor("vf32", "Val", tid, t)
	case kString:
		return tt.Ctor("vstr", "Val", tid, t)
	case kPointer, kMap, kChan, kFunc, kUnsafePointer:
		return tt.Ctor("vptr", "Val", tid, t)
	case kSlice:
		return tt.Ctor("vslice", "Val", tid, t)
	}
	return tt.Ctor("vother", "Val", tid, tt.Fresh("oid", "Int"))
}

func (t *Term) mustVal(x *Exec) *Term {
	if t.Sort == "Val" {
		return t
	}
	return x.tt.Ctor("vother", "Val", x.tt.IntLit(-1), t)
}

func (x *Exec) tagOf(v *Term) *Term {
	tt := x.tt
	if v.Kind == KLit && v.Op == "vnil" {
		return tt.IntLit(0)
	}
	if v.Kind == KApp && isCtor(v.Op) {
		return v.Args[0]
	}
	if t, ok := x.knownTag[v.id]; ok {
		return t
	}
	return tt.App("tagOf", "Int", v)
}

// unbox extracts the payload of v as Go type T (assuming the tag matches).
func (x *Exec) unbox(st *State, v *Term, T types.Type) Value {
	r := x.unbox1(st, v, T)
	if rt, ok := r.(*Term); ok && rt.Sort == "Int" {
		if _, isP := T.Underlying().(*types.Pointer); isP && !rt.hasBound {
			// (guarded: only meaningful when the dynamic type matches)
			x.addFactRaw(x.tt.Implies(x.tt.Eq(x.tagOf(v), x.tidLit(T)), x.objKindFact(rt, T)))
		}
	}
	if o, ok := x.valOrigin[v.id]; ok && x.isValidatorPtrType(T) {
		if rt, ok := r.(*Term); ok {
			x.noteChildLoad(o, rt)
		}
	}
	return r
}

func (x *Exec) unbox1(st *State, v *Term, T types.Type) Value {
	tt := x.tt
	if x.isAggType(T) {
		return x.fresh("unboxed", T)
	}
	if isNamed(T, "reflect", "Value") {
		return x.fresh("unboxedRV", T)
	}
	switch kindOfType(T) {
	case kBool:
		return tt.Sel("v-b", "vbool", "Bool", v)
	case kInt, kInt8, kInt16, kInt32, kInt64:
		return x.from64(tt.Sel("v-i", "vint", x.intSort(64), v), T)
	case kUint, kUint8, kUint16, kUint32, kUint64, kUintptr:
		return x.from64(tt.Sel("v-u", "vuint", x.intSort(64), v), T)
	case kFloat64:
		return tt.Sel("v-f", "vf64", sF64, v)
	case kFloat32:
		return tt.Sel("v-g", "vf32", sF32, v)
	case kString:
		return tt.Sel("v-s", "vstr", x.SS(), v)
	case kPointer, kMap, kChan, kFunc, kUnsafePointer:
		return tt.Sel("v-p", "vptr", "Int", v)
	case kSlice:
		return tt.Sel("v-l", "vslice", "Slice", v)
	}
	return x.fresh("unboxed", T)
}

func (x *Exec) execTypeAssert(fr *Frame, st *State, i *ssa.TypeAssert) {
	tt := x.tt
	v := asTerm(x.val(fr, st, i.X))
	var ok *Term
	var res Value
	if _, isI := i.AssertedType.Underlying().(*types.Interface); isI {
		ok = x.implements(v, i.AssertedType)
		res = v
	} else {
		ok = tt.Eq(x.tagOf(v), x.tidLit(i.AssertedType))
		if v.Sort != "Val" {
			panic("type assert on non-interface sort " + v.Sort)
		}
		res = x.unbox(st, v, i.AssertedType)
	}
	if i.CommaOk {
		// on failure the value is the zero value
		z := x.zero(i.AssertedType)
		var rv Value
		if sameShape(res, z) {
			rv = x.iteVal(ok, res, z)
		} else {
			rv = res
		}
		// an interface-to-interface assertion yields the same dynamic value (or nil): tag knowledge carries over
		if rt, isT := rv.(*Term); isT && rt.Sort == "Val" {
			if o, ok2 := x.valOrigin[v.id]; ok2 {
				x.valOrigin[rt.id] = o
			}
			if ct, ok2 := x.condTag[v.id]; ok2 {
				if x.condTag == nil {
					x.condTag = map[int]*Term{}
				}
				x.condTag[rt.id] = ct
			}
			if kt, ok2 := x.knownTag[v.id]; ok2 {
				if x.condTag == nil {
					x.condTag = map[int]*Term{}
				}
				x.condTag[rt.id] = kt
			}
			if gs, ok2 := x.guarded[v.id]; ok2 {
				for _, g := range gs {
					x.guarded[rt.id] = append(x.guarded[rt.id], guardedTag{g.guard, g.tag, true})
				}
			}
		}
		x.setReg(st, i, &Agg{Elems: []Value{rv, ok}, T: i.Type()})
		return
	}
	x.safety(fr, st, "type-assert", ok, "type assertion "+typeName(i.AssertedType)+" must hold")
	x.setReg(st, i, res)
}

// implements: v (non-nil) has a dynamic type implementing interface I.
func (x *Exec) implements(v *Term, I types.Type) *Term {
	tt := x.tt
	it := I.Underlying().(*types.Interface)
	if it.NumMethods() == 0 {
		return tt.Not(tt.Is("vnil", v))
	}
	// statically known constructor with literal tid: decide
	tag := x.tagOf(v)
	if ct, ok := x.tagIfNonNil(v); ok {
		if n, ok := intVal(ct); ok {
			id := int(n.Int64())
			if id > 0 && id <= len(x.prog.tidList) {
				return tt.And(tt.Not(tt.Is("vnil", v)), tt.Bool(types.Implements(x.prog.tidList[id-1], it)))
			}
		}
	}
	if n, ok := intVal(tag); ok {
		id := int(n.Int64())
		if id == 0 {
			return tt.False()
		}
		if id > 0 && id <= len(x.prog.tidList) {
			return tt.Bool(types.Implements(x.prog.tidList[id-1], it))
		}
	}
	name := "impl$" + typeName(I)
	x.ifaceUsed[name] = it
	return tt.And(tt.Not(tt.Is("vnil", v)), tt.UF(name, "Bool", tag))
}

func (x *Exec) hasNonConstDebugRef(fn *ssa.Function, name string) bool {
	for _, b := range fn.Blocks {
		for _, in := range b.Instrs {
			if d, ok := in.(*ssa.DebugRef); ok && !d.IsAddr && debugName(d) == name {
				if _, isC := d.X.(*ssa.Const); !isC {
					return true
				}
			}
		}
	}
	return false
}

// lookupNameByDebugRefs: value of a named local through any debug reference whose SSA value is available in st.
func (x *Exec) lookupNameByDebugRefs(fn *ssa.Function, st *State, name string) (Value, types.Type, bool) {
	for _, b := range fn.Blocks {
		for _, in := range b.Instrs {
			if d, ok := in.(*ssa.DebugRef); ok && !d.IsAddr && debugName(d) == name {
				if v, ok := st.regs[d.X]; ok {
					return v, d.X.Type(), true
				}
			}
		}
	}
	return nil, nil, false
}

// liveCheck: no use after redeem - a field of a pooled-type object is only accessed while the object is live.
func (x *Exec) liveCheck(fr *Frame, st *State, p *Term, T types.Type) {
	if x.inSpec > 0 || len(x.prog.Cons.ValidatorTypes) == 0 {
		return
	}
	tn := typeName(T)
	if !(x.isValidatorTypeName(tn) || tn == "Result") {
		return
	}
	if p.Kind == KSym && strings.HasPrefix(p.Op, "new$") {
		return
	}
	red := x.tt.Select(x.heap(st, "G$redeemed", arraySort("Int", "Bool")), p)
	x.oblige(fr, st, "live", tn+"|"+x.lineAnchor(x.curPos), []string{"C04", "C05", "C11"}, x.tt.Not(red), "no use of a "+tn+" after it was redeemed to its pool")
}
