package main

import (
	"encoding/json"
	"fmt"
	"go/types"
	"os"
	"path/filepath"
	"sort"
	"strings"
	"sync"

	"golang.org/x/tools/go/ssa"
)

// reachable computes the in-package functions reachable from the given roots (static calls, closures, and
// interface calls resolved to every in-package method of that name).
func (p *Prog) reachable(roots []string) []*ssa.Function {
	seen := map[*ssa.Function]bool{}
	var work []*ssa.Function
	add := func(fn *ssa.Function) {
		if fn == nil || seen[fn] || !p.inMain(fn) || fn.Blocks == nil {
			return
		}
		seen[fn] = true
		work = append(work, fn)
	}
	for _, r := range roots {
		add(p.Funcs[r])
	}
	// methods by name
	byName := map[string][]*ssa.Function{}
	for _, fn := range p.Funcs {
		if p.inMain(fn) && fn.Signature.Recv() != nil {
			byName[fn.Name()] = append(byName[fn.Name()], fn)
		}
	}
	for len(work) > 0 {
		fn := work[len(work)-1]
		work = work[:len(work)-1]
		for _, af := range fn.AnonFuncs {
			add(af)
		}
		for _, b := range fn.Blocks {
			for _, in := range b.Instrs {
				ci, ok := in.(ssa.CallInstruction)
				if !ok {
					if mc, ok := in.(*ssa.MakeClosure); ok {
						if f, ok := mc.Fn.(*ssa.Function); ok {
							add(f)
						}
					}
					continue
				}
				c := ci.Common()
				if c.IsInvoke() {
					it, _ := c.Value.Type().Underlying().(*types.Interface)
					for _, m := range byName[c.Method.Name()] {
						rt := m.Signature.Recv().Type()
						if it != nil && !types.Implements(rt, it) {
							continue
						}
						add(m)
					}
					continue
				}
				if callee := c.StaticCallee(); callee != nil {
					add(callee)
				}
			}
		}
	}
	var out []*ssa.Function
	for fn := range seen {
		// anonymous functions are verified inline in their parents
		if fn.Synthetic == "" && fn.Parent() == nil {
			out = append(out, fn)
		}
	}
	sort.Slice(out, func(i, j int) bool { return funcKey(out[i]) < funcKey(out[j]) })
	return out
}

var sweepRoots = map[string][]string{
	"C06": {"AgainstSchema", "NewSchemaValidator", "(*SchemaValidator).Validate"},
	"C07": {"Spec", "NewSpecValidator", "(*SpecValidator).Validate"},
}

type SweepClaims struct {
	// property -> function -> list of claimed safety obligation names (those that discharge on the unchanged tree)
	Clean    map[string]map[string][]string `json:"clean,omitempty"`
	// property -> function -> obligations that do not discharge on the unchanged tree because of imprecision of the
	// contracts written so far; they are skipped, reported as unverified, and never counted as proved.
	Unproven map[string]map[string][]string `json:"unproven"`
}

func loadSweepClaims() *SweepClaims {
	sc := &SweepClaims{Clean: map[string]map[string][]string{}, Unproven: map[string]map[string][]string{}}
	data, err := os.ReadFile(filepath.Join(verifDir(), "sweep_claims.json"))
	if err == nil {
		json.Unmarshal(data, sc)
	}
	return sc
}

type sweepRun struct {
	key     string
	err     error
	x       *Exec
	results []*OblResult
}

// runSweep executes all functions of the sweep set and solves their safety obligations.
func runSweep(p *Prog, prop string, fns []*ssa.Function, opts SolveOpts) []*sweepRun {
	runs := make([]*sweepRun, len(fns))
	var wg sync.WaitGroup
	sem := make(chan struct{}, 8)
	for i, fn := range fns {
		runs[i] = &sweepRun{key: funcKey(fn)}
		wg.Add(1)
		go func(i int, fn *ssa.Function) {
			defer wg.Done()
			sem <- struct{}{}
			defer func() { <-sem }()
			r := runs[i]
			x := newExecLocked(p, fn)
			x.sweepTags = []string{prop}
			r.x = x
			r.err = runLocked(x)
			if r.err != nil {
				return
			}
			o2 := opts
			o2.Prop = prop
			o2.ClassOnly = "safety"
			r.results, _ = x.SolveFiltered(o2)
		}(i, fn)
	}
	wg.Wait()
	return runs
}

func cmdSweep(args []string) {
	// govc sweep <prop> [-write]: prints per-function sweep status; with -write updates sweep_claims.json
	write := false
	var prop string
	for _, a := range args {
		if a == "-write" {
			write = true
		} else {
			prop = a
		}
	}
	p, err := loadAll()
	if err != nil {
		fmt.Fprintln(os.Stderr, err)
		os.Exit(2)
	}
	fns := p.reachable(sweepRoots[prop])
	dir, _ := os.MkdirTemp("/var/tmp", "govc-sweep-")
	defer os.RemoveAll(dir)
	runs := runSweep(p, prop, fns, SolveOpts{Dir: dir, QuickMs: 1500, FallbackS: 20})
	sc := loadSweepClaims()
	sc.Clean[prop] = map[string][]string{}
	nclean, ntot := 0, 0
	for _, r := range runs {
		if r.err != nil {
			fmt.Printf("ERR    %-60s %v\n", r.key, r.err)
			continue
		}
		var ok, bad []string
		for _, or := range r.results {
			if or.O.Class != "safety" {
				continue
			}
			if or.Status == "unsat" {
				ok = append(ok, or.O.Name)
			} else {
				bad = append(bad, fmt.Sprintf("%s[%s]@%s", or.O.Name, or.Status, or.O.Pos))
			}
		}
		ntot++
		st := "CLEAN "
		if len(bad) > 0 {
			st = "DIRTY "
		} else {
			nclean++
		}
		fmt.Printf("%s %-60s ok=%d bad=%d\n", st, r.key, len(ok), len(bad))
		for _, b := range bad {
			fmt.Printf("         %s\n", b)
		}
		sc.Clean[prop][r.key] = ok
		_ = strings.Join
	}
	fmt.Printf("%d/%d functions swept clean\n", nclean, ntot)
	if write {
		data, _ := json.MarshalIndent(sc, "", " ")
		os.WriteFile(filepath.Join(verifDir(), "sweep_claims.json"), data, 0o644)
	}
}
