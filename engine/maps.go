package main

import (
	"fmt"
	"go/types"

	"golang.org/x/tools/go/ssa"
)

func (x *Exec) keySort(mt *types.Map) string {
	if x.isAggType(mt.Key()) {
		return "Int"
	}
	return x.sortOf(mt.Key())
}

func (x *Exec) keyTerm(mt *types.Map, k Value) *Term {
	if t, ok := k.(*Term); ok {
		return t
	}
	// aggregate key: abstract to an id computed from scalar components
	var args []*Term
	var walk func(v Value)
	walk = func(v Value) {
		switch vv := v.(type) {
		case *Term:
			args = append(args, vv)
		case *Agg:
			for _, e := range vv.Elems {
				walk(e)
			}
		}
	}
	walk(k)
	return x.tt.UF("aggkey$"+typeName(mt.Key()), "Int", args...)
}

func (x *Exec) mapDomHeap(mt *types.Map) (string, string) {
	return "D$" + typeName(mt), arraySort("Int", arraySort(x.keySort(mt), "Bool"))
}

func (x *Exec) mapValHeap(mt *types.Map) (string, string) {
	return "V$" + typeName(mt), arraySort("Int", arraySort(x.keySort(mt), x.sortOf(mt.Elem())))
}

func (x *Exec) mapDom(st *State, m *Term, mt *types.Map) *Term {
	dn, ds := x.mapDomHeap(mt)
	h := x.heap(st, dn, ds)
	d := x.tt.Select(h, m)
	// nil map has empty domain (in every state)
	_, inner := splitArraySort(ds)
	return x.tt.Ite(x.tt.Eq(m, x.tt.IntLit(0)), x.tt.ConstArray(inner, x.tt.False()), d)
}

func (x *Exec) mapValAddr(mt *types.Map, m, k *Term) *Term {
	t := x.tt.UF("mv$"+typeName(mt), "Int", m, k)
	if !x.addrSeen[t.id] {
		x.addrSeen[t.id] = true
		x.addPermFact(x.tt.Gt(t, x.tt.IntLit(0)))
		x.addPermFact(x.tt.Eq(x.tt.UF("birth$", "Int", t), x.tt.UF("birth$", "Int", m)))
		x.addPermFact(x.tt.Not(x.tt.UF("isbase$", "Bool", t)))
	}
	return t
}

func (x *Exec) mapGet(st *State, m *Term, mt *types.Map, k Value) (Value, *Term) {
	tt := x.tt
	kt := x.keyTerm(mt, k)
	ok := tt.Select(x.mapDom(st, m, mt), kt)
	var v Value
	if x.isAggType(mt.Elem()) {
		v = x.load(st, x.mapValAddr(mt, m, kt), mt.Elem())
	} else {
		vn, vs := x.mapValHeap(mt)
		h := x.heap(st, vn, vs)
		t := tt.Select(tt.Select(h, m), kt)
		x.assumeLoaded(st, t, mt.Elem())
		v = t
	}
	if vt, isT := v.(*Term); isT && vt.Sort == "Val" && !vt.hasBound {
		boxed := x.tt.Ctor("vptr", "Val", x.tidLit(types.NewMap(mt.Key(), mt.Elem())), m)
		x.addFact(x.tt.Implies(x.tt.And(ok, x.isJSON(boxed)), x.isJSON(vt)))
	}
	z := x.zero(mt.Elem())
	return x.iteVal(ok, v, z), ok
}

func (x *Exec) mapUpdate(st *State, m *Term, mT types.Type, k, v Value) {
	tt := x.tt
	mt := mT.Underlying().(*types.Map)
	kt := x.keyTerm(mt, k)
	dn, ds := x.mapDomHeap(mt)
	h := x.heap(st, dn, ds)
	st.heaps[dn] = tt.Store(h, m, tt.Store(tt.Select(h, m), kt, tt.True()))
	x.recordWrite(dn, m)
	if x.isAggType(mt.Elem()) {
		x.store(st, x.mapValAddr(mt, m, kt), mt.Elem(), v)
		return
	}
	vn, vs := x.mapValHeap(mt)
	hv := x.heap(st, vn, vs)
	st.heaps[vn] = tt.Store(hv, m, tt.Store(tt.Select(hv, m), kt, asTerm(v)))
	x.recordWrite(vn, m)
}

func (x *Exec) mapDelete(st *State, m *Term, mT types.Type, k Value) {
	tt := x.tt
	mt := mT.Underlying().(*types.Map)
	kt := x.keyTerm(mt, k)
	dn, ds := x.mapDomHeap(mt)
	h := x.heap(st, dn, ds)
	st.heaps[dn] = tt.Store(h, m, tt.Store(tt.Select(h, m), kt, tt.False()))
	x.recordWrite(dn, m)
}

func (x *Exec) mapLen(st *State, m *Term, mt *types.Map) *Term {
	tt := x.tt
	d := x.mapDom(st, m, mt)
	ks := x.keySort(mt)
	c := tt.UF("card$"+ks, "Int", d)
	if !x.addrSeen[-c.id] {
		x.addrSeen[-c.id] = true
		x.addPermFact(tt.Ge(c, tt.IntLit(0)))
		x.addPermFact(tt.Le(c, tt.IntLit(1<<40)))
		_, inner := splitArraySort(x.heapSorts["D$"+typeName(mt)])
		x.addPermFact(tt.Eq(tt.Eq(c, tt.IntLit(0)), tt.Eq(d, tt.ConstArray(inner, tt.False()))))
	}
	if x.bv {
		return tt.App("(_ int2bv 64)", bvSort(64), c)
	}
	return c
}

func (x *Exec) execLookup(fr *Frame, st *State, i *ssa.Lookup) {
	xv := asTerm(x.val(fr, st, i.X))
	if mt, ok := i.X.Type().Underlying().(*types.Map); ok {
		v, okT := x.mapGet(st, xv, mt, x.val(fr, st, i.Index))
		if i.CommaOk {
			x.setReg(st, i, &Agg{Elems: []Value{v, okT}, T: i.Type()})
		} else {
			x.setReg(st, i, v)
		}
		return
	}
	// string index
	idx := x.toInt(asTerm(x.val(fr, st, i.Index)), i.Index.Type())
	x.safety(fr, st, "index", x.tt.And(x.iLe(x.GoInt(0), idx), x.iLt(idx, x.strLen(xv))), "string index in range")
	x.setReg(st, i, x.fresh("byte", i.Type()))
}

// ---- range over maps / strings

type rangeIter struct {
	m     *Term
	mt    *types.Map
	isStr bool
	str   *Term
	vheap string // ghost heap holding the visited set (single cell at index 0)
}

func (x *Exec) execRange(fr *Frame, st *State, i *ssa.Range) {
	xv := asTerm(x.val(fr, st, i.X))
	it := x.tt.Fresh("iter", "Int")
	if mt, ok := i.X.Type().Underlying().(*types.Map); ok {
		ri := &rangeIter{m: xv, mt: mt}
		// name the visited-set ghost after the loop that consumes the iterator
		ord := 0
		if refs := i.Referrers(); refs != nil {
			for _, r := range *refs {
				if nx, ok := r.(*ssa.Next); ok {
					if l := fr.lf.Inner[nx.Block()]; l != nil {
						ord = l.Ordinal
					}
				}
			}
		}
		ri.vheap = fmt.Sprintf("I$visited%d$%s", ord, x.keySort(mt))
		vs := arraySort("Int", arraySort(x.keySort(mt), "Bool"))
		h := x.heap(st, ri.vheap, vs)
		st.heaps[ri.vheap] = x.tt.Store(h, x.tt.IntLit(0), x.tt.ConstArray(arraySort(x.keySort(mt), "Bool"), x.tt.False()))
		x.recordWrite(ri.vheap, x.tt.IntLit(0))
		x.iters[it.id] = ri
	} else {
		x.iters[it.id] = &rangeIter{isStr: true, str: xv}
	}
	x.setReg(st, i, it)
}

func (x *Exec) execNext(fr *Frame, st *State, i *ssa.Next) {
	tt := x.tt
	itv := asTerm(x.val(fr, st, i.Iter))
	ri := x.iters[itv.id]
	tup := i.Type().(*types.Tuple)
	ok := tt.Fresh("next.ok", "Bool")
	if ri == nil || ri.isStr {
		x.note("range over string (iteration abstracted)")
		k := x.fresh("next.k", tup.At(1).Type())
		v := x.fresh("next.v", tup.At(2).Type())
		x.setReg(st, i, &Agg{Elems: []Value{ok, k, v}, T: i.Type()})
		return
	}
	mt := ri.mt
	var k Value
	if x.isAggType(mt.Key()) {
		k = x.fresh("next.k", mt.Key())
	} else {
		k = x.fresh("next.k", mt.Key())
	}
	kt := x.keyTerm(mt, k)
	dom := x.mapDom(st, ri.m, mt)
	x.addFact(tt.Implies(ok, tt.Select(dom, kt)))
	if ri.vheap != "" {
		vs := arraySort("Int", arraySort(x.keySort(mt), "Bool"))
		h := x.heap(st, ri.vheap, vs)
		vis := tt.Select(h, tt.IntLit(0))
		x.addFact(tt.Implies(ok, tt.Not(tt.Select(vis, kt))))
		q := tt.Bound("q", x.keySort(mt))
		x.addFact(tt.Implies(tt.Not(ok), tt.Forall([]*Term{q}, tt.Implies(tt.Select(dom, q), tt.Select(vis, q)))))
		st.heaps[ri.vheap] = tt.Store(h, tt.IntLit(0), tt.Ite(ok, tt.Store(vis, kt, tt.True()), vis))
		x.recordWrite(ri.vheap, tt.IntLit(0))
	}
	// an empty map yields no element
	_, inner := splitArraySort(x.heapSorts["D$"+typeName(mt)])
	x.addFact(tt.Implies(tt.Eq(dom, tt.ConstArray(inner, tt.False())), tt.Not(ok)))
	var v Value
	if x.isAggType(mt.Elem()) {
		v = x.load(st, x.mapValAddr(mt, ri.m, kt), mt.Elem())
	} else {
		vn, vs := x.mapValHeap(mt)
		h := x.heap(st, vn, vs)
		t := tt.Select(tt.Select(h, ri.m), kt)
		x.assumeLoaded(st, t, mt.Elem())
		v = t
		if t.Sort == "Val" {
			boxed := tt.Ctor("vptr", "Val", x.tidLit(types.NewMap(mt.Key(), mt.Elem())), ri.m)
			x.addFact(tt.Implies(tt.And(ok, x.isJSON(boxed)), x.isJSON(t)))
		}
	}
	x.setReg(st, i, &Agg{Elems: []Value{ok, k, v}, T: i.Type()})
}
