package main

import (
	"encoding/json"
	"flag"
	"fmt"
	"os"
	"os/exec"
	"path/filepath"
	"sort"
	"strconv"
	"strings"
	"sync"
	"time"

	"golang.org/x/tools/go/ssa"
)

type KnownFinding struct {
	Property string `json:"property"`
	Key      string `json:"key"`    // obligation name (without ordinal suffix allowed) or carve-out key
	What     string `json:"what"`   // what fails, with the concrete failing input
	Status   string `json:"status"` // "known" | "fixed"
	Commit   string `json:"commit,omitempty"`
	Replay   string `json:"replay,omitempty"` // test function name in /verif/replay/known_findings_test.go
}

type KnownFindings struct {
	Findings []KnownFinding `json:"findings"`
}

func loadKnownFindings() *KnownFindings {
	kf := &KnownFindings{}
	data, err := os.ReadFile(filepath.Join(verifDir(), "known_findings.json"))
	if err == nil {
		json.Unmarshal(data, kf)
	}
	return kf
}

func (k *KnownFindings) lookup(prop string, o *Obligation) *KnownFinding {
	for i := range k.Findings {
		f := &k.Findings[i]
		if f.Status != "known" {
			continue
		}
		if f.Property != prop && f.Property != "*" {
			continue
		}
		if o.KFKey != "" && f.Key == o.KFKey {
			return f
		}
		if f.Key == o.Name || f.Key == stripOrdinal(o.Name) {
			return f
		}
	}
	return nil
}

func stripOrdinal(n string) string {
	if i := strings.LastIndex(n, "#"); i >= 0 {
		return n[:i]
	}
	return n
}

type funcRun struct {
	key     string
	x       *Exec
	err     error
	results []*OblResult
	vacuous bool
	genSec  float64
}

// propertyFuncs: functions whose contract mentions the property.
func propertyFuncs(p *Prog, prop string) []*ssa.Function {
	var out []*ssa.Function
	var keys []string
	for k := range p.Cons.ByKey {
		keys = append(keys, k)
	}
	sort.Strings(keys)
	for _, k := range keys {
		c := p.Cons.ByKey[k]
		if c.Extern || c.Iface || c.Trusted {
			continue
		}
		if !contractMentions(c, prop) {
			continue
		}
		fn := p.Funcs[k]
		if fn == nil {
			continue
		}
		out = append(out, fn)
	}
	return out
}

// slowClaimS: at baseline time, an obligation that needs this many seconds or more is recorded as unproven (not
// claimed) even though it discharged: the check's budget (75 s) then leaves about an order of magnitude of margin.
const slowClaimS = 8.0

var effectProps = []string{"C04", "C05", "C08", "C11", "C12"}

func contractMentions(c *Contract, prop string) bool {
	if hasTag(c.Sweep, prop) {
		return true
	}
	if c.Effects == "validation" && hasTag(effectProps, prop) {
		return true
	}
	for _, cl := range c.Ensures {
		if hasTag(cl.Tags, prop) {
			return true
		}
	}
	for _, cl := range c.PanicEnsures {
		if hasTag(cl.Tags, prop) {
			return true
		}
	}
	for _, cl := range c.Requires {
		if hasTag(cl.Tags, prop) {
			return true
		}
	}
	for _, l := range c.Loops {
		for _, cl := range l.Invariants {
			if hasTag(cl.Tags, prop) {
				return true
			}
		}
	}
	return false
}

func cmdCheck(args []string) int {
	fs := flag.NewFlagSet("check", flag.ExitOnError)
	tier := fs.String("tier", "", "quick|thorough")
	baselineF := fs.Bool("baseline", false, "recompute the claimed obligation set of this property (writes sweep_claims.json); never used by registered checks")
	fs.Parse(args)
	baseline := *baselineF
	if fs.NArg() != 1 {
		fmt.Fprintln(os.Stderr, "usage: govc check [--tier quick|thorough] <property>")
		return 2
	}
	prop := fs.Arg(0)
	var multi []string
	if baseline && strings.Contains(prop, ",") {
		multi = strings.Split(prop, ",")
		prop = multi[0]
	}
	if *tier == "" {
		*tier = os.Getenv("VERIF_TIER")
	}
	if *tier == "" {
		*tier = "quick"
	}
	seed := 0
	if s := os.Getenv("VERIF_SEED"); s != "" {
		seed, _ = strconv.Atoi(s)
	}
	t0 := time.Now()
	p, err := loadAll()
	if err != nil {
		fmt.Fprintln(os.Stderr, "govc: load failed:", err)
		fmt.Printf("VIOLATION property=%s replay=%s no-failing-input-found\n", prop, writeEngineFailure(prop, "load", err.Error()))
		return 1
	}
	// contract targets must exist
	var missing []string
	for k, c := range p.Cons.ByKey {
		if c.Extern || c.Iface {
			continue
		}
		if p.Funcs[k] == nil {
			missing = append(missing, k)
		}
	}
	sort.Strings(missing)
	kf := loadKnownFindings()
	fns := propertyFuncs(p, prop)
	if len(multi) > 0 {
		seenF := map[*ssa.Function]bool{}
		for _, f := range fns {
			seenF[f] = true
		}
		for _, q := range multi[1:] {
			for _, f := range propertyFuncs(p, q) {
				if !seenF[f] {
					seenF[f] = true
					fns = append(fns, f)
				}
			}
		}
	}
	isSweep := false
	if roots, ok := sweepRoots[prop]; ok {
		isSweep = true
		seenF := map[*ssa.Function]bool{}
		for _, f := range fns {
			seenF[f] = true
		}
		for _, f := range p.reachable(roots) {
			if !seenF[f] {
				seenF[f] = true
				fns = append(fns, f)
			}
		}
		sort.Slice(fns, func(i, j int) bool { return funcKey(fns[i]) < funcKey(fns[j]) })
	}
	claims := loadSweepClaims()
	useClaims := false
	var claimed map[string]bool
	if cm, ok := claims.Unproven[prop]; ok && !baseline {
		useClaims = true
		claimed = map[string]bool{} // here: the set of obligations known NOT to discharge on the unchanged tree (skipped, reported as unverified)
		for _, names := range cm {
			for _, n := range names {
				claimed[n] = true
			}
		}
	}
	_ = isSweep
	dir, _ := os.MkdirTemp("/var/tmp", "govc-"+prop+"-")
	defer os.RemoveAll(dir)
	opts := SolveOpts{Dir: dir, QuickMs: 8000, FallbackS: 150, Prop: prop}
	if baseline {
		opts = SolveOpts{Dir: dir, QuickMs: 8000, FallbackS: 25, Prop: prop}
		if len(multi) > 0 {
			opts.Prop = ""
		}
	}
	if *tier == "thorough" {
		opts = SolveOpts{Dir: dir, QuickMs: 5000, FallbackS: 180, Thorough: true, Prop: prop}
	}
	runs := make([]*funcRun, len(fns))
	var wg sync.WaitGroup
	sem := make(chan struct{}, 8)
	for i, fn := range fns {
		runs[i] = &funcRun{key: funcKey(fn)}
		wg.Add(1)
		go func(i int, fn *ssa.Function) {
			defer wg.Done()
			sem <- struct{}{}
			defer func() { <-sem }()
			r := runs[i]
			tg := time.Now()
			x := newExecLocked(p, fn)
			if _, ok := sweepRoots[prop]; ok {
				x.sweepTags = []string{prop}
			}
			r.x = x
			r.err = runLocked(x)
			r.genSec = time.Since(tg).Seconds()
			if r.err != nil {
				return
			}
			o2 := opts
			if useClaims {
				o2.Skip = claimed
			}
			r.results, r.vacuous = x.SolveFiltered(o2)
		}(i, fn)
	}
	wg.Wait()

	// ---- collect
	type sample struct {
		Obligation string  `json:"obligation"`
		Class      string  `json:"class"`
		Clause     string  `json:"clause,omitempty"`
		Where      string  `json:"where,omitempty"`
		Solver     string  `json:"solver"`
		Sec        float64 `json:"sec"`
		Status     string  `json:"status"`
	}
	var samples []sample
	byBackend := map[string]int{}
	total, discharged := 0, 0
	solverSec := 0.0
	var violations []string
	var knownLines []string
	var funcsUnder []string
	unclaimed := map[string]int{}
	var unclaimedNames []string
	notDischarged := map[string][]string{}
	newClaims := map[string][]string{}
	uncontracted := map[string]int{}
	assumed := map[string]int{}
	notes := map[string]int{}
	inlinedDeps := map[string]int{}
	type pendKF struct {
		f  *KnownFinding
		o  *Obligation
		r  *funcRun
		or *OblResult
	}
	var pendingKF []pendKF
	kfReplayed := 0
	replayDir := filepath.Join(verifDir(), "replays", prop)
	os.RemoveAll(replayDir)
	viol := func(name, body string, hasInput bool) {
		os.MkdirAll(replayDir, 0o755)
		f := filepath.Join(replayDir, sanitize(name)+".txt")
		os.WriteFile(f, []byte(body), 0o644)
		line := fmt.Sprintf("VIOLATION property=%s replay=%s", prop, f)
		if !hasInput {
			line += " no-failing-input-found"
		}
		violations = append(violations, line)
	}
	for _, m := range missing {
		viol("contract-target-missing:"+m, "The contract block for "+m+" has no matching function in the current tree: the proof no longer covers the code.\n", false)
	}
	for _, r := range runs {
		funcsUnder = append(funcsUnder, r.key)
		if r.err != nil {
			viol("engine-error:"+r.key, fmt.Sprintf("VC generation failed for %s: %v\nThe obligations of this function could not be generated from the current source, so they are not discharged.\n", r.key, r.err), false)
			continue
		}
		for k, v := range r.x.uncontracted {
			uncontracted[k] += v
		}
		for k, v := range r.x.assumedExtern {
			assumed[k] += v
		}
		for k, v := range r.x.notes {
			notes[k] += v
		}
		for k, v := range r.x.inlined {
			if !strings.Contains(k, "$") && strings.Contains(k, "/") {
				inlinedDeps[k] += v
			}
		}
		if r.vacuous {
			viol("vacuity:"+r.key, "The assumptions (requires + assumed contracts) of "+r.key+" are unsatisfiable: every obligation would hold vacuously.\n", false)
		}
		for _, or := range r.results {
			o := or.O
			if !hasTag(o.Tags, prop) {
				continue
			}
			if o.KFKey != "" {
				// inside-region part of a known finding: expected to fail
				f := kf.lookup(prop, o)
				if or.Status == "unsat" {
					// no longer fails: nothing to report
					continue
				}
				if f != nil {
					pendingKF = append(pendingKF, pendKF{f, o, r, or})
				} else {
					viol(o.Name, violationBody(prop, r, or), or.Status == "sat")
				}
				continue
			}
			if useClaims && claimed[o.Name] && o.KFKey == "" && kf.lookup(prop, o) == nil {
				unclaimed[r.key]++
				unclaimedNames = append(unclaimedNames, o.Name)
				continue
			}
			total++
			solverSec += or.Sec
			if or.Status == "unsat" {
				discharged++
				byBackend[or.Solver]++
				if or.Sec < slowClaimS {
					newClaims[r.key] = append(newClaims[r.key], o.Name)
				} else if baseline {
					// discharged, but too slowly to be claimed: under load it could miss the check's time budget and
					// raise an alarm on an unchanged tree (claims are restricted to obligations well under the budget)
					notDischarged[r.key] = append(notDischarged[r.key], o.Name)
				}
				if len(samples) < 400 {
					samples = append(samples, sample{o.Name, o.Class, o.Text, o.Pos, or.Solver, round3(or.Sec), "discharged"})
				}
				continue
			}
			if f := kf.lookup(prop, o); f != nil {
				pendingKF = append(pendingKF, pendKF{f, o, r, or})
				total--
				continue
			}
			body := violationBody(prop, r, or)
			reproduced := false
			if or.Status == "sat" && o.Class == "ensures" && !baseline {
				model := or.Model
				if predictedNil(model, o) == nil && or.Script != "" {
					// the deciding solver was not the one whose script asks for the result's value: ask z3 for a model too
					if out, _ := runSolver("z3-new", or.Script, 30); firstStatus(out) == "sat" {
						model = out
					}
				}
				ro := p.tryReplay(r.x.fn, o, model, predictedNil(model, o), replayDir, sanitize(o.Name))
				switch {
				case ro.reproduced:
					reproduced = true
					body += "\nReplayed on the real code (go test -overlay, nothing written to /repo): the run below reproduces the counterexample.\ntest source: " + ro.file + "\n" + ro.output + "\n"
				case ro.attempted:
					body += "\nA replay test was generated from the model (" + ro.file + ") but did not reproduce it: " + ro.why + "\n" + ro.output + "\n"
				default:
					body += "\nNo replay test could be generated from the model: " + ro.why + "\n"
				}
			}
			viol(o.Name, body, reproduced)
			notDischarged[r.key] = append(notDischarged[r.key], o.Name)
			samples = append(samples, sample{o.Name, o.Class, o.Text, o.Pos, or.Solver, round3(or.Sec), "FAILED:" + or.Status})
		}
	}
	// known findings are only reported while their recorded input still reproduces on the real code
	if len(pendingKF) > 0 {
		var names []string
		seen := map[string]bool{}
		for _, pk := range pendingKF {
			if pk.f.Replay != "" && !seen[pk.f.Replay] {
				seen[pk.f.Replay] = true
				names = append(names, pk.f.Replay)
			}
		}
		failed, out := runReplayTests(names)
		for _, pk := range pendingKF {
			if pk.f.Replay == "" || failed[pk.f.Replay] {
				knownLines = append(knownLines, fmt.Sprintf("KNOWN-FINDING: property=%s %s", prop, pk.f.What))
				kfReplayed++
			} else {
				// the recorded input no longer fails on the real code but the obligation is still not discharged: a different violation
				viol(pk.o.Name, violationBody(prop, pk.r, pk.or)+"\nThe known finding "+pk.f.Key+" is listed, but its recorded input no longer reproduces on the real code:\n"+out, pk.or.Status == "sat")
			}
		}
	}
	if baseline && len(multi) > 0 {
		// one run, several properties: record per property the tagged obligations that did not discharge
		claims = loadSweepClaims()
		if claims.Unproven == nil {
			claims.Unproven = map[string]map[string][]string{}
		}
		for _, q := range multi {
			nd := map[string][]string{}
			tot, bad := 0, 0
			for _, r := range runs {
				if r.err != nil {
					continue
				}
				for _, or := range r.results {
					if !hasTag(or.O.Tags, q) || or.O.KFKey != "" {
						continue
					}
					tot++
					if (or.Status != "unsat" || or.Sec >= slowClaimS) && kf.lookup(q, or.O) == nil {
						nd[r.key] = append(nd[r.key], or.O.Name)
						bad++
					}
				}
			}
			claims.Unproven[q] = nd
			fmt.Printf("govc: baseline for %s: %d obligations, %d not discharged (recorded as unproven)\n", q, tot, bad)
		}
		data, _ := json.MarshalIndent(claims, "", " ")
		os.WriteFile(filepath.Join(verifDir(), "sweep_claims.json"), data, 0o644)
		return 0
	}
	if baseline {
		if claims.Unproven == nil {
			claims.Unproven = map[string]map[string][]string{}
		}
		claims.Unproven[prop] = notDischarged
		data, _ := json.MarshalIndent(claims, "", " ")
		os.WriteFile(filepath.Join(verifDir(), "sweep_claims.json"), data, 0o644)
		n := 0
		for _, v := range newClaims {
			n += len(v)
		}
		fmt.Printf("govc: baseline for %s written: %d obligations discharged in %d functions; %d not discharged (recorded as unproven, never claimed)\n", prop, n, len(newClaims), len(violations))
		for _, l := range violations {
			fmt.Println("  unclaimed:", l)
		}
		return 0
	}
	if total == 0 && len(violations) == 0 {
		viol("no-obligations", "No obligation was generated for property "+prop+": nothing is proved.\n", false)
	}
	sort.Strings(knownLines)
	knownLines = uniq(knownLines)
	for _, l := range knownLines {
		fmt.Println(l)
	}
	for _, l := range violations {
		fmt.Println(l)
	}
	// ---- evidence
	ev := map[string]interface{}{
		"property_id": prop,
		"tier":        *tier,
		"seed":        seed,
		"level":       "proof",
		"wall_s":      round3(time.Since(t0).Seconds()),
		"violations":  len(violations),
	}
	var asm []string
	asm = append(asm, "govc (the VC generator in /verif/engine) translates go/ssa of the current /repo tree to SMT-LIB faithfully; go/ssa and go/types are correct")
	asm = append(asm, "partial correctness only: termination is not proved")
	asm = append(asm, "math-mode functions treat Go integer arithmetic as mathematical (no wrap-around); bv-mode functions (mode bv) are bit-exact")
	asm = append(asm, "scalar pointers of unknown provenance do not alias struct fields / array elements accessed in the same function")
	asm = append(asm, "callee contracts are assumed at call sites (modular verification); each in-package callee contract is itself verified under the property that tags it")
	for k, v := range assumed {
		if strings.HasPrefix(k, "trusted-contract") || strings.HasPrefix(k, "frame:") {
			asm = append(asm, fmt.Sprintf("assumed, not proved: %s (used %d×)", k, v))
			continue
		}
		asm = append(asm, fmt.Sprintf("assumed model/contract of dependency: %s (used %d×)", k, v))
	}
	for k, v := range uncontracted {
		asm = append(asm, fmt.Sprintf("uncontracted callee (result havocked; heap havocked for in-package and spec/analysis/loads callees, untouched for value-only libraries): %s (%d×)", k, v))
	}
	for k, v := range notes {
		asm = append(asm, fmt.Sprintf("abstraction: %s (%d×)", k, v))
	}
	sort.Strings(asm[5:])
	ev["assumptions"] = asm
	var depList []string
	for k := range inlinedDeps {
		depList = append(depList, k)
	}
	sort.Strings(depList)
	cov := map[string]interface{}{
		"obligations":              total,
		"discharged":               discharged,
		"checker_cmd":              fmt.Sprintf("bin/govc check --tier %s %s  (z3-new 5.1.0 first, z3 4.8.12 + cvc5 1.0 raced on unknown; thorough: all three on every obligation)", *tier, prop),
		"trusted_base":             []string{"govc VC generator (/verif/engine)", "golang.org/x/tools/go/ssa v0.29.0", "z3 5.1.0", "z3 4.8.12", "cvc5 1.0", "models of reflect/strings/fmt in engine/model.go", "assumed dependency contracts in /verif/spec/*.gvc"},
		"functions_under_contract": funcsUnder,
		"dependency_functions_verified_from_their_ssa": depList,
		"by_backend":               byBackend,
		"solver_time_s":            round3(solverSec),
		"samples":                  samples,
		"known_findings":           knownLines,
		"unproven_obligations_per_function": unclaimed,
		"unproven_obligations":               unclaimedNames,
		"known_findings_replayed_on_real_code": kfReplayed,
		"load_s":                   round3(p.LoadSec),
		"contract_files":           p.Cons.Files,
		"assume_clauses_in_contracts": p.Cons.NAssume,
	}
	// the text of every assumption made in the contracts of the functions of this run (assume / assume_result), and
	// the package-level axioms: these are trusted, not proved
	var assumedClauses []string
	for _, fk := range funcsUnder {
		c := p.Cons.ByKey[fk]
		if c == nil {
			continue
		}
		for _, cl := range c.Assumes {
			assumedClauses = append(assumedClauses, fk+": assume "+cl.Text)
		}
		for _, cl := range c.AssumeResult {
			assumedClauses = append(assumedClauses, fk+": assume_result "+cl.Text)
		}
		if c.Trusted {
			assumedClauses = append(assumedClauses, fk+": trusted (contract assumed, body not verified)")
		}
	}
	for _, cl := range p.Cons.Axioms {
		assumedClauses = append(assumedClauses, "axiom "+cl.Text)
	}
	cov["assumed_clauses"] = assumedClauses
	ev["coverage"] = cov
	os.MkdirAll(filepath.Join(verifDir(), "evidence"), 0o755)
	data, _ := json.MarshalIndent(ev, "", " ")
	os.WriteFile(filepath.Join(verifDir(), "evidence", prop+".json"), data, 0o644)
	fmt.Printf("govc: property %s tier %s: %d/%d obligations discharged over %d functions, %d known findings, %d violations, %.1fs\n",
		prop, *tier, discharged, total, len(fns), len(knownLines), len(violations), time.Since(t0).Seconds())
	if len(violations) > 0 {
		return 1
	}
	return 0
}

var execMu sync.Mutex

// Prog-level caches (loops, tids) are not thread-safe: serialise VC generation, parallelise solving.
func newExecLocked(p *Prog, fn *ssa.Function) *Exec {
	execMu.Lock()
	defer execMu.Unlock()
	return NewExec(p, fn)
}

func runLocked(x *Exec) error {
	execMu.Lock()
	defer execMu.Unlock()
	return x.Run()
}

func round3(f float64) float64 { return float64(int(f*1000+0.5)) / 1000 }

func uniq(s []string) []string {
	var out []string
	for i, x := range s {
		if i == 0 || x != s[i-1] {
			out = append(out, x)
		}
	}
	return out
}

func sanitize(s string) string {
	r := strings.NewReplacer("/", "_", "*", "p", "(", "", ")", "", "$", "_", " ", "", ":", "_", "#", "_")
	return r.Replace(s)
}

func writeEngineFailure(prop, what, msg string) string {
	d := filepath.Join(verifDir(), "replays", prop)
	os.MkdirAll(d, 0o755)
	f := filepath.Join(d, "engine-"+what+".txt")
	os.WriteFile(f, []byte(msg+"\n"), 0o644)
	return f
}

func violationBody(prop string, r *funcRun, or *OblResult) string {
	o := or.O
	var sb strings.Builder
	fmt.Fprintf(&sb, "property:   %s\nfunction:   %s\nobligation: %s\nclass:      %s\nclause:     %s\nsource:     %s\nsolver:     %s -> %s\n\n", prop, r.key, o.Name, o.Class, o.Text, o.Pos, or.Solver, or.Status)
	if or.Status == "sat" {
		sb.WriteString("The verifier found a counterexample (model below): values of the function's inputs and heap for which the obligation fails.\n")
		sb.WriteString(modelSummary(or.Model))
	} else {
		sb.WriteString("The obligation was discharged on the unchanged tree and is no longer discharged (solver answer: " + or.Status + "); no model was produced, so no failing input was found.\n")
	}
	if or.Raw != "" {
		sb.WriteString("\nsolver output:\n" + or.Raw + "\n")
	}
	return sb.String()
}

// modelSummary keeps the input-related part of a model.
func modelSummary(m string) string {
	var sb strings.Builder
	lines := strings.Split(m, "\n")
	n := 0
	for i := 0; i < len(lines); i++ {
		l := lines[i]
		if strings.Contains(l, "define-fun p$") || strings.Contains(l, "define-fun |p$") || strings.Contains(l, "define-fun r$") || strings.Contains(l, "define-fun fv$") {
			sb.WriteString(l + "\n")
			for j := i + 1; j < len(lines) && j < i+4 && !strings.Contains(lines[j], "define-fun"); j++ {
				sb.WriteString(lines[j] + "\n")
			}
			n++
		}
		if n > 60 {
			break
		}
	}
	if sb.Len() == 0 {
		if len(m) > 4000 {
			m = m[:4000]
		}
		return m
	}
	return sb.String()
}

// runReplayTests runs the named tests of /verif/replay/*_test.go against /repo (go test -overlay) and returns the set of failing tests.
func runReplayTests(names []string) (map[string]bool, string) {
	failed := map[string]bool{}
	if len(names) == 0 {
		return failed, ""
	}
	ov := map[string]map[string]string{"Replace": {}}
	ents, _ := os.ReadDir(filepath.Join(verifDir(), "replay"))
	for _, e := range ents {
		if strings.HasSuffix(e.Name(), "_test.go") {
			ov["Replace"][filepath.Join(repoDir(), "zz_govc_"+e.Name())] = filepath.Join(verifDir(), "replay", e.Name())
		}
	}
	d, _ := os.MkdirTemp("/var/tmp", "govc-replay-")
	defer os.RemoveAll(d)
	data, _ := json.Marshal(ov)
	ovf := filepath.Join(d, "ov.json")
	os.WriteFile(ovf, data, 0o644)
	cmd := exec.Command("go", "test", "-overlay", ovf, "-vet=off", "-count=1", "-timeout", "120s", "-run", "^("+strings.Join(names, "|")+")$", "-v", ".")
	cmd.Dir = repoDir()
	cmd.Env = append(os.Environ(), "GOFLAGS=-mod=mod", "GOPROXY=off", "GOSUMDB=off", "GOTOOLCHAIN=local")
	out, _ := cmd.CombinedOutput()
	for _, l := range strings.Split(string(out), "\n") {
		l = strings.TrimSpace(l)
		if strings.HasPrefix(l, "--- FAIL: ") {
			f := strings.Fields(l[len("--- FAIL: "):])
			if len(f) > 0 {
				failed[f[0]] = true
			}
		}
	}
	s := string(out)
	if len(s) > 3000 {
		s = s[len(s)-3000:]
	}
	return failed, s
}


// predictedNil reads the value of the obligation's RetNil term from the solver output (get-value after the model).
func predictedNil(out string, o *Obligation) *bool {
	if o.RetNil == nil {
		return nil
	}
	t := strings.TrimSpace(out)
	// the get-value answer is the last s-expression of the output: ((<term> true)) or ((<term> false))
	switch {
	case strings.HasSuffix(t, " true))") || strings.HasSuffix(t, "\ntrue))"):
		v := true
		return &v
	case strings.HasSuffix(t, " false))") || strings.HasSuffix(t, "\nfalse))"):
		v := false
		return &v
	}
	return nil
}
