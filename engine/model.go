package main

// Hand-written models of dependency functions (reflect, strings, fmt, ...) and interface dispatch.

import (
	"fmt"
	"os"
	"go/types"
	"sort"
	"strings"

	"golang.org/x/tools/go/ssa"
)

type modelFn func(x *Exec, fr *Frame, st *State, args []Value) Value

var models map[string]modelFn

func init() {
	models = map[string]modelFn{
		"reflect.ValueOf": func(x *Exec, fr *Frame, st *State, a []Value) Value { return a[0] },
		"reflect.TypeOf":  func(x *Exec, fr *Frame, st *State, a []Value) Value { return x.tagOf(asTerm(a[0])) },
		"(reflect.Value).Kind": func(x *Exec, fr *Frame, st *State, a []Value) Value {
			return x.kindOfVal(asTerm(a[0]))
		},
		"(reflect.Value).IsValid": func(x *Exec, fr *Frame, st *State, a []Value) Value {
			return x.tt.Not(x.tt.Is("vnil", asTerm(a[0])))
		},
		"(reflect.Value).Type": func(x *Exec, fr *Frame, st *State, a []Value) Value {
			v := asTerm(a[0])
			x.safety(fr, st, "reflect", x.tt.Not(x.tt.Is("vnil", v)), "reflect: Type of invalid Value")
			return x.tagOf(v)
		},
		"(reflect.Value).Interface": func(x *Exec, fr *Frame, st *State, a []Value) Value {
			// (no validity obligation: the model does not distinguish a nil interface element obtained through Index,
			// for which Interface() is fine, from the zero Value)
			return asTerm(a[0])
		},
		"(reflect.Value).Len": func(x *Exec, fr *Frame, st *State, a []Value) Value {
			v := asTerm(a[0])
			tt := x.tt
			k := x.kindOfVal(v)
			okKind := tt.Or(tt.Eq(k, x.kindLit(kSlice)), tt.Eq(k, x.kindLit(kString)), tt.Eq(k, x.kindLit(kArray)), tt.Eq(k, x.kindLit(kMap)), tt.Eq(k, x.kindLit(kChan)))
			x.safety(fr, st, "reflect", okKind, "reflect: Len of a value that is not a slice, array, string, map or chan")
			return x.reflLen(v)
		},
		"(reflect.Value).Index": func(x *Exec, fr *Frame, st *State, a []Value) Value {
			v := asTerm(a[0])
			i := asTerm(a[1])
			tt := x.tt
			k := x.kindOfVal(v)
			okKind := tt.Or(tt.Eq(k, x.kindLit(kSlice)), tt.Eq(k, x.kindLit(kString)), tt.Eq(k, x.kindLit(kArray)))
			x.safety(fr, st, "reflect", okKind, "reflect: Index of a value that is not a slice, array or string")
			x.safety(fr, st, "reflect-index", tt.And(x.iLe(x.GoInt(0), i), x.iLt(i, x.reflLen(v))), "reflect: slice index out of range")
			return x.reflIndex(st, v, i)
		},
		"(reflect.Value).Int": func(x *Exec, fr *Frame, st *State, a []Value) Value {
			v := asTerm(a[0])
			x.safety(fr, st, "reflect", x.tt.Is("vint", v), "reflect: Int of non-int Value")
			return x.tt.Sel("v-i", "vint", x.intSort(64), v)
		},
		"(reflect.Value).Uint": func(x *Exec, fr *Frame, st *State, a []Value) Value {
			v := asTerm(a[0])
			x.safety(fr, st, "reflect", x.tt.Is("vuint", v), "reflect: Uint of non-uint Value")
			return x.tt.Sel("v-u", "vuint", x.intSort(64), v)
		},
		"(reflect.Value).Float": func(x *Exec, fr *Frame, st *State, a []Value) Value {
			v := asTerm(a[0])
			tt := x.tt
			x.safety(fr, st, "reflect", tt.Or(tt.Is("vf64", v), tt.Is("vf32", v)), "reflect: Float of non-float Value")
			rm := tt.Lit("RNE", "RoundingMode")
			return tt.Ite(tt.Is("vf64", v), tt.Sel("v-f", "vf64", sF64, v), tt.App("(_ to_fp 11 53)", sF64, rm, tt.Sel("v-g", "vf32", sF32, v)))
		},
		"(reflect.Value).String": func(x *Exec, fr *Frame, st *State, a []Value) Value {
			v := asTerm(a[0])
			return x.tt.Ite(x.tt.Is("vstr", v), x.tt.Sel("v-s", "vstr", x.SS(), v), x.tt.UF("reflString$", x.SS(), v))
		},
		"reflect.Indirect": func(x *Exec, fr *Frame, st *State, a []Value) Value {
			v := asTerm(a[0])
			tt := x.tt
			return tt.Ite(tt.Eq(x.kindOfVal(v), x.kindLit(kPointer)), tt.UF("reflElem$", "Val", v), v)
		},
		"reflect.DeepEqual": func(x *Exec, fr *Frame, st *State, a []Value) Value {
			return x.deepEqual(st, asTerm(a[0]), asTerm(a[1]))
		},
		"reflect.Zero": func(x *Exec, fr *Frame, st *State, a []Value) Value {
			t := asTerm(a[0])
			x.safety(fr, st, "reflect", x.tt.Not(x.tt.Eq(t, x.tt.IntLit(0))), "reflect: Zero(nil)")
			z := x.tt.UF("reflZero$", "Val", t)
			x.addFact(x.tt.Eq(x.tagOf(z), t))
			return z
		},
		"(reflect.Value).Convert": func(x *Exec, fr *Frame, st *State, a []Value) Value {
			v, t := asTerm(a[0]), asTerm(a[1])
			x.safety(fr, st, "reflect", x.tt.UF("convertible$", "Bool", x.tagOf(v), t), "reflect: Convert between non-convertible types")
			c := x.tt.UF("reflConvert$", "Val", v, t)
			x.addFact(x.tt.Eq(x.tagOf(c), t))
			x.addFact(x.tt.Implies(x.tt.Eq(x.tagOf(v), t), x.tt.Eq(c, v)))
			return c
		},
		"utf8.RuneCountInString": nil,
	}
	delete(models, "utf8.RuneCountInString")
	models["unicode/utf8.RuneCountInString"] = func(x *Exec, fr *Frame, st *State, a []Value) Value {
		s := asTerm(a[0])
		tt := x.tt
		n := tt.UF("runeCount$", "Int", s)
		x.addFact(tt.And(tt.Ge(n, tt.IntLit(0)), tt.Le(n, x.toMathInt(x.strLen(s)))))
		x.addFact(tt.Eq(tt.Eq(n, tt.IntLit(0)), tt.Eq(s, x.StrLit(""))))
		if x.bv {
			return tt.App("(_ int2bv 64)", bvSort(64), n)
		}
		return n
	}
	models["fmt.Sprintf"] = func(x *Exec, fr *Frame, st *State, a []Value) Value {
		f := asTerm(a[0])
		args := asTerm(a[1])
		// Sprintf("%v", s) / Sprintf("%s", s) of a single string-kind value is that string
		if f == x.StrLit("%v") || f == x.StrLit("%s") {
			if n, ok := x.litInt(x.sLen(args)); ok && n == 1 {
				h := x.heap(st, "A$interface{}", arraySort("Int", arraySort("Int", "Val")))
				el := x.tt.Select(x.tt.Select(h, x.sArr(args)), x.tt.IntLit(0))
				gen := x.tt.UF("sprintf$", x.SS(), f, x.sArr(args), x.tt.Select(h, x.sArr(args)))
				return x.tt.Ite(x.tt.Is("vstr", el), x.tt.Sel("v-s", "vstr", x.SS(), el), gen)
			}
		}
		return x.tt.UF("sprintf$", x.SS(), f, x.sArr(args), x.tt.Select(x.heap(st, "A$interface{}", arraySort("Int", arraySort("Int", "Val"))), x.sArr(args)))
	}
	models["fmt.Errorf"] = func(x *Exec, fr *Frame, st *State, a []Value) Value {
		r := x.tt.Fresh("errorf", "Val")
		x.addFact(x.tt.Not(x.tt.Is("vnil", r)))
		x.addFact(x.wfVal(r))
		return r
	}
	models["strings.HasPrefix"] = func(x *Exec, fr *Frame, st *State, a []Value) Value {
		return x.strOp("str.prefixof", "Bool", asTerm(a[1]), asTerm(a[0]))
	}
	models["strings.HasSuffix"] = func(x *Exec, fr *Frame, st *State, a []Value) Value {
		return x.strOp("str.suffixof", "Bool", asTerm(a[1]), asTerm(a[0]))
	}
	models["strings.Contains"] = func(x *Exec, fr *Frame, st *State, a []Value) Value {
		return x.strOp("str.contains", "Bool", asTerm(a[0]), asTerm(a[1]))
	}
	models["strings.EqualFold"] = func(x *Exec, fr *Frame, st *State, a []Value) Value {
		s, t := asTerm(a[0]), asTerm(a[1])
		if s.id > t.id {
			s, t = t, s
		}
		r := x.tt.UF("equalFold$", "Bool", s, t)
		x.addFact(x.tt.Implies(x.tt.Eq(s, t), r))
		return r
	}
	models["strings.TrimPrefix"] = func(x *Exec, fr *Frame, st *State, a []Value) Value {
		s, p := asTerm(a[0]), asTerm(a[1])
		tt := x.tt
		if x.bv || !x.strTheory {
			return tt.UF("trimPrefix$", x.SS(), s, p)
		}
		lp := tt.App("str.len", "Int", p)
		return tt.Ite(tt.App("str.prefixof", "Bool", p, s), tt.App("str.substr", x.SS(), s, lp, tt.Sub(tt.App("str.len", "Int", s), lp)), s)
	}
	models["strings.Split"] = func(x *Exec, fr *Frame, st *State, a []Value) Value {
		// returns a fresh non-empty slice (sep != "" gives at least one element)
		s := x.fresh("split", types.NewSlice(tString)).(*Term)
		r := x.alloc(st, "split")
		ln := x.sLen(s)
		x.addFact(x.tt.Eq(x.sArr(s), r))
		x.addFact(x.iLe(x.GoInt(1), ln))
		return s
	}
	models["strings.Join"] = func(x *Exec, fr *Frame, st *State, a []Value) Value {
		sl := asTerm(a[0])
		h := x.heap(st, "A$string", arraySort("Int", arraySort("Int", x.SS())))
		return x.tt.UF("join$", x.SS(), x.tt.Select(h, x.sArr(sl)), x.toMathInt(x.sLen(sl)), asTerm(a[1]))
	}
	models["errors.New"] = func(x *Exec, fr *Frame, st *State, a []Value) Value {
		r := x.tt.Fresh("errnew", "Val")
		x.addFact(x.tt.Not(x.tt.Is("vnil", r)))
		x.addFact(x.tt.Eq(x.errMsg(r), asTerm(a[0])))
		return r
	}
	models["strconv.Itoa"] = func(x *Exec, fr *Frame, st *State, a []Value) Value {
		return x.tt.UF("itoa$", x.SS(), x.toMathInt(asTerm(a[0])))
	}
}

func (x *Exec) kindLit(k int) *Term { return x.IntC(int64(k), types.Typ[types.Uint]) }

// kindOfVal: reflect.Kind of a dynamic value, as Go uint.
func (x *Exec) kindOfVal(v *Term) *Term {
	tt := x.tt
	if v.Kind == KLit && v.Op == "vnil" {
		return x.kindLit(kInvalid)
	}
	if v.Kind == KApp && isCtor(v.Op) {
		if n, ok := intVal(v.Args[0]); ok {
			id := int(n.Int64())
			if id > 0 && id <= len(x.prog.tidList) {
				return x.kindLit(kindOfType(x.prog.tidList[id-1]))
			}
		}
	}
	x.kindUsed = true
	return tt.App("kindOf", x.intSort(64), v)
}

func (x *Exec) kindOfTidTerm(tid *Term) *Term {
	tt := x.tt
	if n, ok := intVal(tid); ok {
		id := int(n.Int64())
		if id == 0 {
			return x.kindLit(kInvalid)
		}
		if id > 0 && id <= len(x.prog.tidList) {
			return x.kindLit(kindOfType(x.prog.tidList[id-1]))
		}
	}
	x.kindUsed = true
	return tt.App("kindOfTid", x.intSort(64), tid)
}

func (x *Exec) reflLen(v *Term) *Term {
	tt := x.tt
	other := tt.UF("reflLen$", x.intSort(64), v)
	if !x.addrSeen[-other.id-1000000] {
		x.addrSeen[-other.id-1000000] = true
		x.addPermFact(x.iLe(x.GoInt(0), other))
		x.addPermFact(x.iLe(other, x.GoInt(1<<40)))
	}
	return tt.Ite(tt.Is("vslice", v), x.sLen(tt.Sel("v-l", "vslice", "Slice", v)),
		tt.Ite(tt.Is("vstr", v), x.strLen(tt.Sel("v-s", "vstr", x.SS(), v)), other))
}

// reflIndex: element i of a slice value, boxed.
func (x *Exec) reflIndex(st *State, v, i *Term) *Term {
	tt := x.tt
	sl := tt.Sel("v-l", "vslice", "Slice", v)
	anyT := types.NewSlice(tAny)
	h := x.heap(st, "A$interface{}", arraySort("Int", arraySort("Int", "Val")))
	elem := tt.Select(tt.Select(h, x.sArr(sl)), x.toMathInt(i))
	x.assumeLoaded(st, elem, tAny)
	gen := tt.UF("reflIndex$", "Val", v, x.toMathInt(i))
	x.addFact(x.wfVal(gen))
	x.addFact(tt.Implies(x.isJSON(v), x.isJSON(elem)))
	return tt.Ite(tt.And(tt.Is("vslice", v), tt.Eq(x.tagOf(v), x.tidLit(anyT))), elem, gen)
}

func (x *Exec) errMsg(v *Term) *Term { return x.tt.UF("errMsg$", x.SS(), v) }

// deepEqual: partial axiomatisation.
func (x *Exec) deepEqual(st *State, a, b *Term) *Term {
	tt := x.tt
	if a.id > b.id {
		a, b = b, a
	}
	de := tt.UF("deepEq$", "Bool", a, b)
	scalarEq := func(c string) *Term { return tt.And(tt.Is(c, a), tt.Is(c, b)) }
	// scalars: equal iff same dynamic type and value
	for _, c := range []string{"vbool", "vint", "vuint", "vstr"} {
		x.addFact(tt.Implies(tt.Or(tt.Is(c, a), tt.Is(c, b)), tt.Eq(de, tt.Eq(a, b))))
	}
	x.addFact(tt.Implies(tt.Or(tt.Is("vnil", a), tt.Is("vnil", b)), tt.Eq(de, tt.Eq(a, b))))
	x.addFact(tt.Implies(scalarEq("vf64"), tt.Eq(de, tt.And(tt.Eq(x.tagOf(a), x.tagOf(b)), tt.App("fp.eq", "Bool", tt.Sel("v-f", "vf64", sF64, a), tt.Sel("v-f", "vf64", sF64, b))))))
	x.addFact(tt.Implies(scalarEq("vf32"), tt.Eq(de, tt.And(tt.Eq(x.tagOf(a), x.tagOf(b)), tt.App("fp.eq", "Bool", tt.Sel("v-g", "vf32", sF32, a), tt.Sel("v-g", "vf32", sF32, b))))))
	x.addFact(tt.Implies(de, tt.Eq(x.tagOf(a), x.tagOf(b))))
	return de
}

// ---------- invoke

func (x *Exec) doInvoke(fr *Frame, st *State, recv *Term, recvT types.Type, m *types.Func, args []Value, sig *types.Signature) Value {
	tt := x.tt
	name := m.Name()
	// reflect.Type modelled as Int
	if isNamed(recvT, "reflect", "Type") {
		x.safety(fr, st, "nil-deref", tt.Not(tt.Eq(recv, tt.IntLit(0))), "method call on nil reflect.Type ("+name+")")
		switch name {
		case "Kind":
			return x.kindOfTidTerm(recv)
		case "Elem":
			x.note("reflect.Type.Elem (uninterpreted)")
			return tt.UF("typeElem$", "Int", recv)
		case "ConvertibleTo":
			return tt.UF("convertible$", "Bool", recv, asTerm(args[0]))
		case "String", "Name":
			return tt.UF("typeName$", x.SS(), recv)
		}
		x.note("reflect.Type." + name + " (havocked)")
		return x.freshResults("rt."+name, sig.Results())
	}
	if recv.Sort != "Val" {
		panic("invoke on non-interface sort " + recv.Sort + " type " + recvT.String())
	}
	x.safety(fr, st, "nil-deref", tt.Not(tt.Is("vnil", recv)), "method call on nil interface ("+name+")")
	// well-known interfaces
	itName := typeName(recvT)
	switch {
	case name == "Error" && sig.Params().Len() == 0 && sig.Results().Len() == 1:
		x.assumedExtern["model:error.Error"]++
		return x.errMsg(recv)
	case itName == "strfmt.Registry":
		key := "iface:strfmt.Registry." + name
		if con := x.prog.Cons.ByKey["strfmt.Registry."+name]; con != nil {
			x.assumedExtern[key]++
			return x.applyIfaceContract(fr, st, con, recv, recvT, m, args, sig)
		}
	}
	// in-package interfaces: case split over implementers
	if x.isMainIface(recvT, m) {
		if con := x.prog.Cons.ByKey[itName+"."+name]; con != nil && con.Iface {
			// an interface contract that every implementation is checked to refine (refines-pre / refines-post
			// obligations of the implementations): one call, no case split over the dynamic type
			if ct, ok := x.tagIfNonNil(recv); !ok || func() bool { _, lit := intVal(ct); return !lit }() {
				x.ifaceUsedCon[itName+"."+name]++
				return x.applyIfaceContract(fr, st, con, recv, recvT, m, args, sig)
			}
		}
		return x.invokeSplit(fr, st, recv, recvT, m, args, sig)
	}
	if con := x.prog.Cons.ByKey[itName+"."+name]; con != nil {
		x.assumedExtern["iface:"+itName+"."+name]++
		return x.applyIfaceContract(fr, st, con, recv, recvT, m, args, sig)
	}
	x.uncontracted["invoke "+itName+"."+name]++
	x.note("invoke of " + itName + "." + name + " without contract (result havocked, no heap effect assumed)")
	return x.freshResults("inv."+name, sig.Results())
}

func (x *Exec) isMainIface(T types.Type, m *types.Func) bool {
	if m.Pkg() != nil && strings.HasPrefix(m.Pkg().Path(), mainPath) {
		return true
	}
	if n, ok := T.(*types.Named); ok && n.Obj().Pkg() != nil && strings.HasPrefix(n.Obj().Pkg().Path(), mainPath) {
		return true
	}
	return false
}

// implementers of method m among the package's named types (pointer and value receivers).
func (x *Exec) implementers(it *types.Interface) []types.Type {
	var out []types.Type
	for _, pk := range []*ssa.Package{x.prog.Main, x.prog.Post} {
		if pk == nil {
			continue
		}
		sc := pk.Pkg.Scope()
		names := sc.Names()
		sort.Strings(names)
		for _, n := range names {
			tn, ok := sc.Lookup(n).(*types.TypeName)
			if !ok {
				continue
			}
			T := tn.Type()
			if _, isI := T.Underlying().(*types.Interface); isI {
				continue
			}
			if types.Implements(T, it) {
				out = append(out, T)
			} else if types.Implements(types.NewPointer(T), it) {
				out = append(out, types.NewPointer(T))
			}
		}
	}
	return out
}

func (x *Exec) invokeSplit(fr *Frame, st *State, recv *Term, recvT types.Type, m *types.Func, args []Value, sig *types.Signature) Value {
	tt := x.tt
	it := recvT.Underlying().(*types.Interface)
	// restrict to the single-method interface of the call for anonymous interfaces
	impls := x.implementers(it)
	tag := x.tagOf(recv)
	if ct, ok := x.tagIfNonNil(recv); ok {
		tag = ct // the receiver was just checked to be non-nil
	} else if os.Getenv("GOVC_DEBUG") != "" {
		fmt.Fprintf(os.Stderr, "debug: no tag knowledge for receiver %s (guarded entries: %d) pc=%s\n", recv, len(x.guarded[recv.id]), x.curPC)
	}
	type branch struct {
		st  *State
		val Value
	}
	var brs []branch
	var conds []*Term
	_, syntactic := intVal(tag)
	for _, T := range impls {
		c := tt.Eq(tag, x.tidLit(T))
		bs := st.clone()
		bs.pc = tt.And(st.pc, c)
		if isFalse(bs.pc) {
			continue
		}
		if !syntactic && len(impls) > 2 && !x.quiet {
			// semantic pruning: the facts known so far may exclude this dynamic type
			key := fmt.Sprintf("%d|%d", recv.id, x.prog.tid(T))
			if x.infeasible == nil {
				x.infeasible = map[string]bool{}
			}
			inf, seen := x.infeasible[key]
			if !seen {
				inf = x.quickUnsat(bs.pc)
				if inf {
					x.infeasible[key] = true // facts only grow: stays infeasible under the same or a stronger pc
				}
			}
			if inf && x.pcImpliedSyntactically(bs.pc, key) {
				continue
			}
		}
		conds = append(conds, c)
		if os.Getenv("GOVC_DEBUG") != "" {
			fmt.Fprintf(os.Stderr, "debug: invokeSplit %s on %s (terms so far %d)\n", m.Name(), typeName(T), x.tt.n)
		}
		fn := x.prog.SSA.LookupMethod(T, m.Pkg(), m.Name())
		if fn == nil {
			panic("no method " + m.Name() + " on " + T.String())
		}
		x.curPC = bs.pc
		rv := x.unbox(bs, recv, T)
		v := x.callStatic(fr, bs, fn, append([]Value{rv}, args...), nil)
		brs = append(brs, branch{bs, v})
	}
	// unknown dynamic type
	other := st.clone()
	other.pc = tt.And(st.pc, tt.Not(tt.Or(conds...)))
	if !isFalse(other.pc) {
		x.curPC = other.pc
		x.note("invoke " + m.Name() + ": dynamic type outside the package's implementers possible (havoc)")
		x.uncontracted["invoke(unknown dynamic type)."+m.Name()]++
		x.havocAll(other)
		brs = append(brs, branch{other, x.freshResults("inv."+m.Name(), sig.Results())})
	}
	// merge
	var sts []*State
	key := &ssa.Parameter{}
	for _, b := range brs {
		if b.val != nil {
			b.st.regs[key] = b.val
		}
		sts = append(sts, b.st)
	}
	ms := x.mergeStates(sts)
	if ms == nil {
		st.pc = tt.False()
		return x.freshResults("inv."+m.Name(), sig.Results())
	}
	res := ms.regs[key]
	delete(ms.regs, key)
	*st = *ms
	x.curPC = st.pc
	return res
}

func (x *Exec) applyIfaceContract(fr *Frame, st *State, con *Contract, recv *Term, recvT types.Type, m *types.Func, args []Value, sig *types.Signature) Value {
	// build a pseudo parameter list: recv + params
	names := []string{"recv"}
	if len(con.Params) > 0 {
		names = con.Params
	} else {
		for i := 0; i < sig.Params().Len(); i++ {
			n := sig.Params().At(i).Name()
			if n == "" || n == "_" {
				n = fmt.Sprintf("a%d", i)
			}
			names = append(names, n)
		}
	}
	all := append([]Value{recv}, args...)
	ptypes := []types.Type{recvT}
	for i := 0; i < sig.Params().Len(); i++ {
		ptypes = append(ptypes, sig.Params().At(i).Type())
	}
	pre := st.clone()
	mkEnv := func(cur *State, results []Value) *Env {
		e := &Env{x: x, st: cur, old: pre, vars: map[string]Value{}, vtypes: map[string]types.Type{}, fr: fr}
		for i, n := range names {
			if i < len(all) {
				e.vars[n] = all[i]
				e.vtypes[n] = ptypes[i]
			}
		}
		res := sig.Results()
		for i := 0; i < res.Len() && i < len(results); i++ {
			e.vars[fmt.Sprintf("result%d", i)] = results[i]
			e.vtypes[fmt.Sprintf("result%d", i)] = res.At(i).Type()
		}
		if len(results) == 1 {
			e.vars["result"] = results[0]
			e.vtypes["result"] = res.At(0).Type()
		}
		return e
	}
	for _, c := range con.Requires {
		g := x.evalBool(mkEnv(st, nil), c.Expr)
		x.oblige(fr, st, "pre", fmt.Sprintf("%s:%d", con.Key, c.Ord), c.Tags, g, "precondition of "+con.Key+": "+c.Text)
	}
	if con.Effects == "validation" {
		rp := x.tt.Sel("v-p", "vptr", "Int", recv)
		x.addFact(x.tt.Implies(x.tt.Not(x.tt.Eq(rp, x.tt.IntLit(0))), x.descT(rp, rp)))
		// implicit precondition of every validator method: the receiver is live
		red := x.heap(st, "G$redeemed", arraySort("Int", "Bool"))
		x.oblige(fr, st, "pre", con.Key+":live-recv", []string{"C04", "C05", "C11"}, x.tt.Not(x.tt.Select(red, rp)), "receiver of "+con.Key+" must be live (not redeemed)")
		x.checkCallEffects(fr, st, pre, rp, con.Key)
		x.noWriteCheck++
		x.applyValidationEffects(st, pre, rp)
		x.restoreSelf(fr, st, pre, rp, con.Key)
		x.noWriteCheck--
		env := mkEnv(pre, nil)
		for _, mm := range con.Modifies {
			x.havocLvalue(env, st, mm)
		}
	} else if con.ModAll {
		x.havocAll(st)
	} else {
		env := mkEnv(pre, nil)
		for _, mm := range con.Modifies {
			x.havocLvalue(env, st, mm)
		}
	}
	if con.MayPanic {
		pb := x.tt.Fresh("panics$"+con.Key, "Bool")
		ps := st.clone()
		ps.pc = x.tt.And(st.pc, pb)
		for _, c := range con.PanicEnsures {
			x.curPC = ps.pc
			x.addFact(x.evalBool(mkEnv(ps, nil), c.Expr))
		}
		fr.panics = append(fr.panics, ps)
		st.pc = x.tt.And(st.pc, x.tt.Not(pb))
		x.curPC = st.pc
	}
	res := sig.Results()
	var results []Value
	for i := 0; i < res.Len(); i++ {
		results = append(results, x.fresh(fmt.Sprintf("r$%s.%d", con.Key, i), res.At(i).Type()))
	}
	for i, rv := range results {
		x.assumeExisting(st, rv, res.At(i).Type())
		if rt, ok := rv.(*Term); ok && rt.Sort == "Int" && x.topEffects() && !x.quiet && len(x.prog.Cons.ValidatorTypes) > 0 {
			x.addFact(x.frameSoFar(x.topFrame, pre, rt))
		}
	}
	for _, c := range con.Ensures {
		x.addFact(x.evalBool(mkEnv(st, results), c.Expr))
	}
	switch len(results) {
	case 0:
		return nil
	case 1:
		return results[0]
	}
	return &Agg{Elems: results, T: res}
}

// isJSON: the dynamic value is a JSON value as produced by encoding/json with UseNumber or not (nil, bool, float64,
// json.Number, string, []interface{}, map[string]interface{}), deeply. The deep part is unfolded where elements are
// extracted (reflIndex, map lookups, range), relative to the heap at that point.
func (x *Exec) isJSON(v *Term) *Term {
	tt := x.tt
	j := tt.UF("spec$isJSON", "Bool", v)
	if v.hasBound {
		return j
	}
	if !x.jsonSeen[v.id] {
		x.jsonSeen[v.id] = true
		tag := x.tagOf(v)
		shallow := tt.Or(tt.Is("vnil", v),
			tt.Eq(tag, x.tidLit(tBool)), tt.Eq(tag, x.tidLit(tFloat64)), tt.Eq(tag, x.tidLit(tString)),
			tt.Eq(tag, x.tidLit(x.lookupType("encoding/json.Number"))),
			tt.Eq(tag, x.tidLit(types.NewSlice(tAny))), tt.Eq(tag, x.tidLit(types.NewMap(tString, tAny))))
		x.addFactRaw(tt.Implies(j, shallow))
		// scalars of the JSON types are JSON values
		scalar := tt.Or(tt.Is("vnil", v), tt.Eq(tag, x.tidLit(tBool)), tt.Eq(tag, x.tidLit(tFloat64)), tt.Eq(tag, x.tidLit(tString)),
			tt.Eq(tag, x.tidLit(x.lookupType("encoding/json.Number"))))
		x.addFactRaw(tt.Implies(scalar, j))
	}
	return j
}

// pcImpliedSyntactically: remember the path condition under which the branch was found infeasible; reuse only under the same pc.
func (x *Exec) pcImpliedSyntactically(pc *Term, key string) bool {
	if x.infeasiblePC == nil {
		x.infeasiblePC = map[string]int{}
	}
	if id, ok := x.infeasiblePC[key]; ok {
		return id == pc.id
	}
	x.infeasiblePC[key] = pc.id
	return true
}
