package main

import (
	"fmt"
	"regexp"
	"go/constant"
	"go/types"
	"math"
	"math/big"
	"strings"

	"golang.org/x/tools/go/ssa"
)

// Value is *Term (scalar), *Agg (struct/array/tuple) or *Closure.
type Value interface{}

type Agg struct {
	Elems []Value
	T     types.Type
}

type Closure struct {
	Fn   *ssa.Function
	Bind []Value
}

const (
	sF64 = "(_ FloatingPoint 11 53)"
	sF32 = "(_ FloatingPoint 8 24)"
)

// reflect.Kind numbers
const (
	kInvalid = iota
	kBool
	kInt
	kInt8
	kInt16
	kInt32
	kInt64
	kUint
	kUint8
	kUint16
	kUint32
	kUint64
	kUintptr
	kFloat32
	kFloat64
	kComplex64
	kComplex128
	kArray
	kChan
	kFunc
	kInterface
	kMap
	kPointer
	kSlice
	kString
	kStruct
	kUnsafePointer
)

func isNamed(t types.Type, pkg, name string) bool {
	n, ok := t.(*types.Named)
	if !ok {
		return false
	}
	o := n.Obj()
	return o.Name() == name && o.Pkg() != nil && o.Pkg().Path() == pkg
}

// intInfo returns (bits, signed, ok) for integer types.
func intInfo(t types.Type) (int, bool, bool) {
	b, ok := t.Underlying().(*types.Basic)
	if !ok {
		return 0, false, false
	}
	switch b.Kind() {
	case types.Int8:
		return 8, true, true
	case types.Int16:
		return 16, true, true
	case types.Int32:
		return 32, true, true
	case types.Int64, types.Int, types.UntypedInt, types.UntypedRune:
		return 64, true, true
	case types.Uint8:
		return 8, false, true
	case types.Uint16:
		return 16, false, true
	case types.Uint32:
		return 32, false, true
	case types.Uint64, types.Uint, types.Uintptr:
		return 64, false, true
	}
	return 0, false, false
}

func isFloat(t types.Type) (int, bool) {
	b, ok := t.Underlying().(*types.Basic)
	if !ok {
		return 0, false
	}
	switch b.Kind() {
	case types.Float32:
		return 32, true
	case types.Float64, types.UntypedFloat:
		return 64, true
	}
	return 0, false
}

func kindOfType(t types.Type) int {
	switch u := t.Underlying().(type) {
	case *types.Basic:
		switch u.Kind() {
		case types.Bool, types.UntypedBool:
			return kBool
		case types.Int, types.UntypedInt:
			return kInt
		case types.Int8:
			return kInt8
		case types.Int16:
			return kInt16
		case types.Int32, types.UntypedRune:
			return kInt32
		case types.Int64:
			return kInt64
		case types.Uint:
			return kUint
		case types.Uint8:
			return kUint8
		case types.Uint16:
			return kUint16
		case types.Uint32:
			return kUint32
		case types.Uint64:
			return kUint64
		case types.Uintptr:
			return kUintptr
		case types.Float32:
			return kFloat32
		case types.Float64, types.UntypedFloat:
			return kFloat64
		case types.Complex64:
			return kComplex64
		case types.Complex128:
			return kComplex128
		case types.String, types.UntypedString:
			return kString
		case types.UnsafePointer:
			return kUnsafePointer
		}
	case *types.Array:
		return kArray
	case *types.Chan:
		return kChan
	case *types.Signature:
		return kFunc
	case *types.Interface:
		return kInterface
	case *types.Map:
		return kMap
	case *types.Pointer:
		return kPointer
	case *types.Slice:
		return kSlice
	case *types.Struct:
		return kStruct
	}
	return kInvalid
}

// isAggType: struct / array / tuple are engine-level aggregates (except modelled opaque ones).
func (x *Exec) isAggType(t types.Type) bool {
	if isNamed(t, "reflect", "Value") {
		return false
	}
	switch t.Underlying().(type) {
	case *types.Struct, *types.Array, *types.Tuple:
		return true
	}
	if _, ok := t.(*types.Tuple); ok {
		return true
	}
	return false
}

func (x *Exec) intSort(bits int) string {
	if x.bv {
		return bvSort(bits)
	}
	return "Int"
}

// sortOf maps a Go scalar type to an SMT sort.
func (x *Exec) sortOf(t types.Type) string {
	if isNamed(t, "reflect", "Value") {
		return "Val"
	}
	if isNamed(t, "reflect", "Type") {
		return "Int"
	}
	switch u := t.Underlying().(type) {
	case *types.Basic:
		if bits, _, ok := intInfo(t); ok {
			return x.intSort(bits)
		}
		if bits, ok := isFloat(t); ok {
			if bits == 32 {
				return sF32
			}
			return sF64
		}
		switch u.Kind() {
		case types.Bool, types.UntypedBool:
			return "Bool"
		case types.String, types.UntypedString:
			return x.SS()
		case types.UnsafePointer, types.UntypedNil:
			return "Int"
		case types.Complex64, types.Complex128:
			return "Int" // unsupported: opaque
		}
	case *types.Pointer, *types.Map, *types.Chan, *types.Signature:
		return "Int"
	case *types.Slice:
		return "Slice"
	case *types.Interface:
		return "Val"
	}
	panic(fmt.Sprintf("sortOf: aggregate or unsupported type %s", t))
}

func (x *Exec) prelude() string {
	I := "Int"
	if x.bv {
		I = bvSort(64)
	}
	var sb strings.Builder
	if !x.strTheory {
		sb.WriteString("(declare-sort Str 0)\n")
	}
	sb.WriteString("(declare-datatypes ((Slice 0)) (((mk-slice (s-arr Int) (s-len " + I + ") (s-cap " + I + ")))))\n")
	sb.WriteString("(declare-datatypes ((Val 0)) (((vnil) (vbool (v-btid Int) (v-b Bool)) (vint (v-itid Int) (v-i " + I + ")) (vuint (v-utid Int) (v-u " + I + ")) " +
		"(vf64 (v-ftid Int) (v-f " + sF64 + ")) (vf32 (v-gtid Int) (v-g " + sF32 + ")) (vstr (v-stid Int) (v-s " + x.SS() + ")) (vptr (v-ptid Int) (v-p Int)) " +
		"(vslice (v-ltid Int) (v-l Slice)) (vother (v-otid Int) (v-o Int)))))\n")
	sb.WriteString("(define-fun tagOf ((v Val)) Int (ite ((_ is vnil) v) 0 (ite ((_ is vbool) v) (v-btid v) (ite ((_ is vint) v) (v-itid v) (ite ((_ is vuint) v) (v-utid v) " +
		"(ite ((_ is vf64) v) (v-ftid v) (ite ((_ is vf32) v) (v-gtid v) (ite ((_ is vstr) v) (v-stid v) (ite ((_ is vptr) v) (v-ptid v) (ite ((_ is vslice) v) (v-ltid v) (v-otid v)))))))))))\n")
	sb.WriteString("(declare-fun kindOfTid (Int) " + I + ")\n")
	sb.WriteString("(define-fun kindOf ((v Val)) " + I + " (ite ((_ is vnil) v) " + x.GoInt(0).Op + " (kindOfTid (tagOf v))))\n")
	if !x.bv {
		sb.WriteString("(define-fun go_quo ((a Int) (b Int)) Int (ite (>= a 0) (ite (> b 0) (div a b) (- (div a (- b)))) (ite (> b 0) (- (div (- a) b)) (div (- a) (- b)))))\n")
		sb.WriteString("(define-fun go_rem ((a Int) (b Int)) Int (- a (* b (go_quo a b))))\n")
	}
	return sb.String()
}

func init() {
	for c, fs := range map[string][]string{
		"mk-slice": {"s-arr", "s-len", "s-cap"},
		"vnil":     {},
		"vbool":    {"v-btid", "v-b"},
		"vint":     {"v-itid", "v-i"},
		"vuint":    {"v-utid", "v-u"},
		"vf64":     {"v-ftid", "v-f"},
		"vf32":     {"v-gtid", "v-g"},
		"vstr":     {"v-stid", "v-s"},
		"vptr":     {"v-ptid", "v-p"},
		"vslice":   {"v-ltid", "v-l"},
		"vother":   {"v-otid", "v-o"},
	} {
		ctorNames[c] = true
		ctorFields[c] = fs
	}
}

// ---- integer helpers (mode dependent)

func (x *Exec) IntC(n int64, t types.Type) *Term {
	bits, _, ok := intInfo(t)
	if !ok {
		bits = 64
	}
	if x.bv {
		return x.tt.BVLit(big.NewInt(n), bits)
	}
	return x.tt.BigLit(big.NewInt(n))
}

// goInt literal (type int)
func (x *Exec) GoInt(n int64) *Term { return x.IntC(n, types.Typ[types.Int]) }

func (x *Exec) bigC(n *big.Int, t types.Type) *Term {
	bits, _, ok := intInfo(t)
	if !ok {
		bits = 64
	}
	if x.bv {
		return x.tt.BVLit(n, bits)
	}
	return x.tt.BigLit(n)
}

func (x *Exec) f64Lit(f float64) *Term {
	b := math.Float64bits(f)
	s := fmt.Sprintf("(fp #b%d #b%011b #b%052b)", b>>63, (b>>52)&0x7ff, b&((1<<52)-1))
	return x.tt.Lit(s, sF64)
}
func (x *Exec) f32Lit(f float32) *Term {
	b := math.Float32bits(f)
	s := fmt.Sprintf("(fp #b%d #b%08b #b%023b)", b>>31, (b>>23)&0xff, b&((1<<23)-1))
	return x.tt.Lit(s, sF32)
}

func smtString(s string) *string {
	var sb strings.Builder
	sb.WriteByte('"')
	for i := 0; i < len(s); i++ {
		c := s[i]
		switch {
		case c == '"':
			sb.WriteString(`""`)
		case c == '\\':
			sb.WriteString(`\u{5c}`)
		case c >= 0x20 && c < 0x7f:
			sb.WriteByte(c)
		default:
			fmt.Fprintf(&sb, `\u{%x}`, c)
		}
	}
	sb.WriteByte('"')
	r := sb.String()
	return &r
}

// SS: the SMT sort of Go strings: the theory of strings when the contract says `strings`, else an uninterpreted sort.
func (x *Exec) SS() string {
	if x.strTheory {
		return "String"
	}
	return "Str"
}

func (x *Exec) StrLit(s string) *Term {
	if x.strTheory {
		return x.tt.Lit(*smtString(s), "String")
	}
	name := "strlit$" + fmt.Sprintf("%x", s)
	if len(s) <= 24 && isPlain(s) {
		name = "strlit$" + fmt.Sprintf("%d_", len(s)) + s
	}
	t := x.tt.Sym(name, "Str")
	if _, ok := x.strLits[name]; !ok {
		x.strLits[name] = s
	}
	return t
}

func isPlain(s string) bool {
	for _, c := range s {
		if !(c >= 'a' && c <= 'z' || c >= 'A' && c <= 'Z' || c >= '0' && c <= '9' || c == '_' || c == '-' || c == '.') {
			return false
		}
	}
	return true
}

func (x *Exec) nilSlice() *Term {
	return x.tt.Ctor("mk-slice", "Slice", x.tt.IntLit(0), x.GoInt(0), x.GoInt(0))
}
func (x *Exec) mkSlice(arr, ln, cp *Term) *Term {
	return x.tt.Ctor("mk-slice", "Slice", arr, ln, cp)
}
func (x *Exec) sArr(s *Term) *Term { return x.tt.Sel("s-arr", "mk-slice", "Int", s) }
func (x *Exec) sLen(s *Term) *Term { return x.tt.Sel("s-len", "mk-slice", x.intSort(64), s) }
func (x *Exec) sCap(s *Term) *Term { return x.tt.Sel("s-cap", "mk-slice", x.intSort(64), s) }

// zero value of a type
func (x *Exec) zero(t types.Type) Value {
	if x.isAggType(t) {
		switch u := t.Underlying().(type) {
		case *types.Struct:
			a := &Agg{T: t}
			for i := 0; i < u.NumFields(); i++ {
				a.Elems = append(a.Elems, x.zero(u.Field(i).Type()))
			}
			return a
		case *types.Array:
			a := &Agg{T: t}
			for i := int64(0); i < u.Len(); i++ {
				a.Elems = append(a.Elems, x.zero(u.Elem()))
			}
			return a
		case *types.Tuple:
			a := &Agg{T: t}
			for i := 0; i < u.Len(); i++ {
				a.Elems = append(a.Elems, x.zero(u.At(i).Type()))
			}
			return a
		}
	}
	s := x.sortOf(t)
	switch s {
	case "Bool":
		return x.tt.False()
	case "Int":
		return x.tt.IntLit(0)
	case "String", "Str":
		return x.StrLit("")
	case "Slice":
		return x.nilSlice()
	case "Val":
		return x.tt.Lit("vnil", "Val")
	case sF64:
		return x.f64Lit(0)
	case sF32:
		return x.f32Lit(0)
	}
	if strings.HasPrefix(s, "(_ BitVec") {
		return x.tt.BVLit(big.NewInt(0), bvWidth(s))
	}
	panic("zero: " + s)
}

// fresh symbolic value of a type
func (x *Exec) fresh(prefix string, t types.Type) Value {
	if x.isAggType(t) {
		switch u := t.Underlying().(type) {
		case *types.Struct:
			a := &Agg{T: t}
			for i := 0; i < u.NumFields(); i++ {
				a.Elems = append(a.Elems, x.fresh(prefix+"."+u.Field(i).Name(), u.Field(i).Type()))
			}
			return a
		case *types.Array:
			a := &Agg{T: t}
			for i := int64(0); i < u.Len(); i++ {
				a.Elems = append(a.Elems, x.fresh(fmt.Sprintf("%s.%d", prefix, i), u.Elem()))
			}
			return a
		case *types.Tuple:
			a := &Agg{T: t}
			for i := 0; i < u.Len(); i++ {
				a.Elems = append(a.Elems, x.fresh(fmt.Sprintf("%s.%d", prefix, i), u.At(i).Type()))
			}
			return a
		}
	}
	v := x.tt.Fresh(prefix, x.sortOf(t))
	x.assumeTyped(v, t)
	return v
}

// assumeTyped adds range/well-formedness facts for a symbolic scalar of Go type t.
func (x *Exec) assumeTyped(v *Term, t types.Type) {
	tt := x.tt
	if bits, signed, ok := intInfo(t); ok && !x.bv && v.Sort == "Int" && !isNamed(t, "reflect", "Type") {
		lo, hi := new(big.Int), new(big.Int)
		if signed {
			lo.Lsh(big.NewInt(1), uint(bits-1))
			lo.Neg(lo)
			hi.Lsh(big.NewInt(1), uint(bits-1))
			hi.Sub(hi, big.NewInt(1))
		} else {
			hi.Lsh(big.NewInt(1), uint(bits))
			hi.Sub(hi, big.NewInt(1))
		}
		x.addFact(tt.And(tt.Le(tt.BigLit(lo), v), tt.Le(v, tt.BigLit(hi))))
		return
	}
	switch v.Sort {
	case "Slice":
		x.addFact(x.wfSlice(v))
	case "Val":
		x.addFact(x.wfVal(v))
	}
	switch t.Underlying().(type) {
	case *types.Pointer, *types.Map, *types.Chan, *types.Signature:
		if v.Sort == "Int" {
			x.addFact(tt.Ge(v, tt.IntLit(0)))
			x.assumeObjKind(v, t)
		}
	}
}

// assumeObjKind: only validator objects can be descendants of validator objects.
func (x *Exec) assumeObjKind(v *Term, t types.Type) {
	if len(x.prog.Cons.ValidatorTypes) == 0 || v.hasBound {
		return
	}
	p, ok := t.Underlying().(*types.Pointer)
	if !ok {
		return
	}
	tn := typeName(p.Elem())
	if _, isStruct := p.Elem().Underlying().(*types.Struct); isStruct {
		// objects of different struct types are different objects
		x.addFactRaw(x.tt.Or(x.tt.Eq(v, x.tt.IntLit(0)), x.tt.Eq(x.tt.UF("typeOfObj$", "Int", v), x.tidLit(p.Elem()))))
	}
	if x.isMutableTypeName(tn) && !x.embeddedByValue(tn) {
		// no struct of the package holds a T by value: every *T points to the start of an allocated object
		x.addFactRaw(x.tt.Or(x.tt.Eq(v, x.tt.IntLit(0)), x.tt.UF("isbase$", "Bool", v)))
	}
	isv := x.tt.UF("isval$", "Bool", v)
	if x.isValidatorTypeName(tn) {
		x.addFactRaw(x.tt.Or(x.tt.Eq(v, x.tt.IntLit(0)), isv))
	} else if _, isStruct := p.Elem().Underlying().(*types.Struct); isStruct {
		x.addFactRaw(x.tt.Not(isv))
	}
}

func (x *Exec) wfSlice(s *Term) *Term {
	tt := x.tt
	ln, cp := x.sLen(s), x.sCap(s)
	return tt.And(x.iLe(x.GoInt(0), ln), x.iLe(ln, cp), tt.Ge(x.sArr(s), tt.IntLit(0)),
		tt.Implies(tt.Eq(x.sArr(s), tt.IntLit(0)), tt.Eq(cp, x.GoInt(0))),
		x.iLe(cp, x.GoInt(1<<40)))
}

// wfVal: well-formedness of a dynamic value (ranges of ints by kind are added through kindOfTid facts lazily)
func (x *Exec) wfVal(v *Term) *Term {
	return x.tt.UF("wfVal", "Bool", v)
}

// signed compare helpers mode-aware (for Go int)
func (x *Exec) iLe(a, b *Term) *Term {
	if x.bv {
		return x.bvCmp("bvsle", a, b)
	}
	return x.tt.Le(a, b)
}
func (x *Exec) iLt(a, b *Term) *Term {
	if x.bv {
		return x.bvCmp("bvslt", a, b)
	}
	return x.tt.Lt(a, b)
}
func (x *Exec) bvCmp(op string, a, b *Term) *Term {
	av, w, ok1 := bvVal(a)
	bv_, _, ok2 := bvVal(b)
	if ok1 && ok2 {
		// constant fold
		sa, sb := toSigned(av, w), toSigned(bv_, w)
		switch op {
		case "bvsle":
			return x.tt.Bool(sa.Cmp(sb) <= 0)
		case "bvslt":
			return x.tt.Bool(sa.Cmp(sb) < 0)
		case "bvule":
			return x.tt.Bool(av.Cmp(bv_) <= 0)
		case "bvult":
			return x.tt.Bool(av.Cmp(bv_) < 0)
		}
	}
	return x.tt.App(op, "Bool", a, b)
}

func toSigned(v *big.Int, w int) *big.Int {
	half := new(big.Int).Lsh(big.NewInt(1), uint(w-1))
	if v.Cmp(half) >= 0 {
		return new(big.Int).Sub(v, new(big.Int).Lsh(big.NewInt(1), uint(w)))
	}
	return new(big.Int).Set(v)
}

// constant -> Value
func (x *Exec) constVal(c *ssa.Const) Value {
	t := c.Type()
	if c.Value == nil {
		// nil / zero value
		if b, ok := t.Underlying().(*types.Basic); ok && b.Kind() == types.UntypedNil {
			return x.tt.IntLit(0)
		}
		return x.zero(t)
	}
	switch c.Value.Kind() {
	case constant.Bool:
		return x.tt.Bool(constant.BoolVal(c.Value))
	case constant.String:
		return x.StrLit(constant.StringVal(c.Value))
	case constant.Int:
		if _, isF := isFloat(t); isF {
			f, _ := constant.Float64Val(c.Value)
			return x.floatLit(f, t)
		}
		bi, ok := new(big.Int).SetString(c.Value.ExactString(), 10)
		if !ok {
			panic("bad int const " + c.Value.ExactString())
		}
		return x.bigC(bi, t)
	case constant.Float:
		f, _ := constant.Float64Val(c.Value)
		if _, _, isI := intInfo(t); isI {
			bi, _ := new(big.Float).SetFloat64(f).Int(nil)
			return x.bigC(bi, t)
		}
		return x.floatLit(f, t)
	}
	panic(fmt.Sprintf("unsupported constant %v : %s", c.Value, t))
}

func (x *Exec) floatLit(f float64, t types.Type) *Term {
	if bits, _ := isFloat(t); bits == 32 {
		return x.f32Lit(float32(f))
	}
	return x.f64Lit(f)
}

// iteVal merges two values of the same shape.
func (x *Exec) iteVal(c *Term, a, b Value) Value {
	if a == nil {
		return b
	}
	if b == nil {
		return a
	}
	switch av := a.(type) {
	case *Term:
		bt, ok := b.(*Term)
		if !ok {
			return a
		}
		if av == bt {
			return av
		}
		if av.Sort != bt.Sort {
			panic(fmt.Sprintf("iteVal sort mismatch %s / %s", av.Sort, bt.Sort))
		}
		return x.tt.Ite(c, av, bt)
	case *Agg:
		bg, ok := b.(*Agg)
		if !ok || len(bg.Elems) != len(av.Elems) {
			return a
		}
		if av == bg {
			return av
		}
		r := &Agg{T: av.T, Elems: make([]Value, len(av.Elems))}
		same := true
		for i := range av.Elems {
			r.Elems[i] = x.iteVal(c, av.Elems[i], bg.Elems[i])
			if r.Elems[i] != av.Elems[i] {
				same = false
			}
		}
		if same {
			return av
		}
		return r
	case *Closure:
		if bc, ok := b.(*Closure); ok && bc.Fn == av.Fn {
			r := &Closure{Fn: av.Fn, Bind: make([]Value, len(av.Bind))}
			for i := range av.Bind {
				r.Bind[i] = x.iteVal(c, av.Bind[i], bc.Bind[i])
			}
			return r
		}
		return a
	}
	return a
}

// eqVal: structural equality of two values as a Bool term.
func (x *Exec) eqVal(a, b Value) *Term {
	switch av := a.(type) {
	case *Term:
		bt := b.(*Term)
		if av.Sort == sF64 || av.Sort == sF32 {
			return x.tt.App("fp.eq", "Bool", av, bt)
		}
		return x.tt.Eq(av, bt)
	case *Agg:
		bg := b.(*Agg)
		var cs []*Term
		for i := range av.Elems {
			cs = append(cs, x.eqVal(av.Elems[i], bg.Elems[i]))
		}
		return x.tt.And(cs...)
	}
	return x.tt.Fresh("eq?", "Bool")
}

func asTerm(v Value) *Term {
	t, ok := v.(*Term)
	if !ok {
		panic(fmt.Sprintf("expected scalar term, got %T", v))
	}
	return t
}

func typeName(t types.Type) string {
	s := types.TypeString(t, func(p *types.Package) string {
		if p.Path() == mainPath {
			return ""
		}
		return p.Name()
	})
	return reAny.ReplaceAllString(s, "interface{}")
}

var reAny = regexp.MustCompile(`\bany\b`)


// objKindFact: the facts assumeObjKind would add, as a term.
func (x *Exec) objKindFact(v *Term, t types.Type) *Term {
	tt := x.tt
	p, ok := t.Underlying().(*types.Pointer)
	if !ok || len(x.prog.Cons.ValidatorTypes) == 0 {
		return tt.True()
	}
	var cs []*Term
	if _, isStruct := p.Elem().Underlying().(*types.Struct); isStruct {
		cs = append(cs, tt.Or(tt.Eq(v, tt.IntLit(0)), tt.Eq(tt.UF("typeOfObj$", "Int", v), x.tidLit(p.Elem()))))
		isv := tt.UF("isval$", "Bool", v)
		if x.isValidatorTypeName(typeName(p.Elem())) {
			cs = append(cs, tt.Or(tt.Eq(v, tt.IntLit(0)), isv))
		} else {
			cs = append(cs, tt.Not(isv))
		}
	}
	return tt.And(cs...)
}

func (x *Exec) embeddedByValue(tn string) bool {
	for _, ft := range x.faFieldType {
		if ft == tn {
			return true
		}
	}
	return false
}
