package main

// Validation effects: a frame discipline for code that works on pooled validator objects.
//
// A function whose contract says `effects validation` may change, besides what its `modifies` clause lists:
//   - objects that were sitting in a pool at entry (redeemed) or are created during the call,
//   - for methods of validator types: the receiver and its stored descendants (relation desc),
//   - arrays and maps owned (ghost G$owner) by such objects.
// Everything else of the mutable types - and every object of a type outside the mutable types - keeps its value.
// Callers apply exactly this as the effect of the call; the callee's body is checked against it at exit.

import (
	"fmt"
	"go/types"
	"sort"
	"strings"

	"golang.org/x/tools/go/ssa"
)

func (x *Exec) isValidatorTypeName(tn string) bool { return x.prog.Cons.ValidatorTypes[tn] }
func (x *Exec) isMutableTypeName(tn string) bool {
	return x.prog.Cons.ValidatorTypes[tn] || x.prog.Cons.MutableTypes[tn]
}

// heapTypeName: for "H$T$f" returns T.
func heapTypeName(h string) string {
	if !strings.HasPrefix(h, "H$") {
		return ""
	}
	rest := h[2:]
	if i := strings.LastIndex(rest, "$"); i >= 0 {
		return rest[:i]
	}
	return rest
}

func (x *Exec) descT(q, r *Term) *Term {
	tt := x.tt
	if !x.descAxiom {
		x.descAxiom = true
		a, b := tt.Bound("a", "Int"), tt.Bound("b", "Int")
		d := tt.UF("desc$", "Bool", a, b)
		// descendants of validator objects are validator objects
		x.facts = append(x.facts, tt.Forall([]*Term{a, b}, tt.Implies(d, tt.Or(tt.Eq(a, b), tt.UF("isval$", "Bool", a))), []*Term{d}))
		// nothing descends from nil
		x.facts = append(x.facts, tt.Forall([]*Term{a}, tt.Not(tt.UF("desc$", "Bool", a, tt.IntLit(0))), []*Term{tt.UF("desc$", "Bool", a, tt.IntLit(0))}))
		// ... and nil descends from nothing
		x.facts = append(x.facts, tt.Forall([]*Term{a}, tt.Not(tt.UF("desc$", "Bool", tt.IntLit(0), a)), []*Term{tt.UF("desc$", "Bool", tt.IntLit(0), a)}))
		// the validator objects form a forest: the ancestors of an object form a chain
		c := tt.Bound("c", "Int")
		d1, d2 := tt.UF("desc$", "Bool", c, a), tt.UF("desc$", "Bool", c, b)
		x.facts = append(x.facts, tt.Forall([]*Term{a, b, c}, tt.Implies(tt.And(d1, d2), tt.Or(tt.UF("desc$", "Bool", a, b), tt.UF("desc$", "Bool", b, a))), []*Term{d1, d2}))
	}
	return tt.UF("desc$", "Bool", q, r)
}

func (x *Exec) ownerOf(st *State, a *Term) *Term {
	h := x.heap(st, "G$owner", arraySort("Int", "Int"))
	return x.tt.Select(h, a)
}

// poolOrFresh(q) relative to state s: q was in a pool or did not exist yet.
func (x *Exec) poolOrFresh(s *State, q *Term) *Term {
	tt := x.tt
	red := x.heap(s, "G$redeemed", arraySort("Int", "Bool"))
	return tt.Or(tt.Select(red, q), tt.Ge(tt.UF("birth$", "Int", q), s.clk))
}

// keepCond: condition under which cell q of heap `name` is guaranteed unchanged by a call with validation effects
// made in state pre with receiver recv (nil for functions).
func (x *Exec) keepCond(pre *State, name string, q *Term, recv *Term) *Term {
	tt := x.tt
	switch {
	case name == "G$redeemed":
		c := tt.Not(x.poolOrFresh(pre, q))
		if recv != nil {
			c = tt.And(c, tt.Not(x.descT(q, recv)))
		}
		return c
	case name == "G$ready":
		// a readiness flag survives a call only for objects unrelated to the callee's receiver
		c := tt.Not(x.poolOrFresh(pre, q))
		if recv != nil {
			c = tt.And(c, tt.Not(x.descT(q, recv)), tt.Not(x.descT(recv, q)))
		}
		return c
	case name == "G$owner":
		// ownership of an existing array changes only if its owner may change it
		o := x.ownerOf(pre, q)
		c := tt.And(tt.Lt(tt.UF("birth$", "Int", q), pre.clk), tt.Or(tt.Eq(o, tt.IntLit(0)), tt.Not(x.poolOrFresh(pre, o))))
		if recv != nil {
			c = tt.And(c, tt.Not(x.descT(o, recv)))
		}
		return c
	case x.isUnframedHeap(name):
		return tt.False()
	case strings.HasPrefix(name, "H$"):
		tn := heapTypeName(name)
		base := q
		embs := x.embeddersOfAny(name)
		// embedded structs: the owning object decides
		var alts []*Term
		mk := func(b *Term) *Term {
			c := tt.Not(x.poolOrFresh(pre, b))
			if recv != nil && x.isValidatorTypeName(tn) {
				c = tt.And(c, tt.Not(x.descT(b, recv)))
			}
			return c
		}
		alts = append(alts, tt.And(tt.UF("isbase$", "Bool", base), mk(base)))
		for _, fa := range embs {
			b := tt.UF("inv$"+fa, "Int", q)
			alts = append(alts, tt.And(tt.Eq(q, tt.UF(fa, "Int", b)), mk(b)))
		}
		return tt.Or(alts...)
	case strings.HasPrefix(name, "A$"), strings.HasPrefix(name, "D$"), strings.HasPrefix(name, "V$"):
		o := x.ownerOf(pre, q)
		existed := tt.Lt(tt.UF("birth$", "Int", q), pre.clk)
		unowned := tt.And(tt.Eq(o, tt.IntLit(0)), tt.UF("isbase$", "Bool", q), existed)
		owned := tt.And(tt.Not(tt.Eq(o, tt.IntLit(0))), tt.UF("isbase$", "Bool", q), existed, tt.Not(x.poolOrFresh(pre, o)))
		if recv != nil {
			owned = tt.And(owned, tt.Not(x.descT(o, recv)))
		}
		// interior arrays (fields of array type): decided by the object that contains them
		var alts []*Term
		alts = append(alts, unowned, owned)
		for _, fa := range x.arrayEmbedders() {
			b := tt.UF("inv$"+fa, "Int", q)
			c := tt.And(tt.Eq(q, tt.UF(fa, "Int", b)), tt.Not(x.poolOrFresh(pre, b)))
			if recv != nil {
				c = tt.And(c, tt.Not(x.descT(b, recv)))
			}
			alts = append(alts, c)
		}
		return tt.Or(alts...)
	}
	return tt.False()
}

// arrayEmbedders: fa$T$f functions for array-typed fields of validator/mutable struct types.
func (x *Exec) arrayEmbedders() []string {
	if x.arrEmb != nil {
		return x.arrEmb
	}
	x.arrEmb = []string{}
	sc := x.prog.Main.Pkg.Scope()
	for _, n := range sc.Names() {
		tn, ok := sc.Lookup(n).(*types.TypeName)
		if !ok {
			continue
		}
		st, ok := tn.Type().Underlying().(*types.Struct)
		if !ok || !x.isMutableTypeName(typeName(tn.Type())) {
			continue
		}
		for i := 0; i < st.NumFields(); i++ {
			if at, isA := st.Field(i).Type().Underlying().(*types.Array); isA {
				x.arrEmb = append(x.arrEmb, "fa$"+typeName(tn.Type())+"$"+st.Field(i).Name())
				if x.arrEmbElem == nil {
					x.arrEmbElem = map[string]bool{}
				}
				x.arrEmbElem[typeName(at.Elem())] = true
			}
		}
	}
	return x.arrEmb
}

// effectHeaps: the heaps a validation-effects call may touch.
func (x *Exec) effectHeaps(st *State) []string {
	var out []string
	for _, n := range x.allHeapNames(st) {
		switch {
		case n == "G$redeemed", n == "G$owner", n == "G$ready":
			out = append(out, n)
		case strings.HasPrefix(n, "H$"):
			if x.isMutableTypeName(heapTypeName(n)) || x.pooledClosure()[heapTypeName(n)] || x.isUnframedHeap(n) {
				out = append(out, n)
			}
		case strings.HasPrefix(n, "A$"), strings.HasPrefix(n, "D$"), strings.HasPrefix(n, "V$"):
			out = append(out, n)
		}
	}
	sort.Strings(out)
	return out
}

// applyValidationEffects havocs the heaps a validation call may touch, keeping what the discipline guarantees.
// The new heap is a "mix": reading cell q yields the old value where the discipline keeps q, an unknown value
// elsewhere. The case split is made when the heap is read (quantifier-free).
func (x *Exec) applyValidationEffects(st, pre *State, recv *Term) {
	tt := x.tt
	if tt.SelectHook == nil {
		tt.SelectHook = x.selectMix
	}
	for _, n := range x.effectHeaps(st) {
		srt := x.heapSorts[n]
		if srt == "" {
			continue
		}
		is, _ := splitArraySort(srt)
		if is != "Int" {
			continue
		}
		old := x.heap(st, n, srt)
		unk := tt.Fresh(n+"@fx", srt)
		x.mixN++
		op := fmt.Sprintf("mix$%d", x.mixN)
		x.mixInfo[op] = mixRec{heap: n, pre: pre, recv: recv}
		tt.Funs[op] = FunSig{Args: []string{srt, srt}, Ret: srt}
		st.heaps[n] = tt.App(op, srt, old, unk)
		x.recordWrite(n, nil)
	}
	st.clk = x.advanceClk(st)
}

type mixRec struct {
	heap string
	pre  *State
	recv *Term
}

func (x *Exec) selectMix(a, i *Term) *Term {
	mr, ok := x.mixInfo[a.Op]
	if !ok {
		return nil
	}
	tt := x.tt
	k := x.keepCond(mr.pre, mr.heap, i, mr.recv)
	return tt.Ite(k, tt.Select(a.Args[0], i), tt.Select(a.Args[1], i))
}

// checkValidationEffects: at exit of a function with validation effects, every change respects the discipline.
func (x *Exec) checkValidationEffects(fr *Frame, st *State, recv *Term, tags []string, class, detail string) {
	tt := x.tt
	con := fr.con
	env := x.contractEnv(fr, fr.entry, fr.entry, nil)
	allowed := map[string][]*Term{}
	wholeOK := map[string]bool{}
	if con != nil {
		x.inSpec++
		for _, m := range con.Modifies {
			for _, t := range env.lvalueTargets(m) {
				if t.whole {
					wholeOK[t.heap] = true
				} else {
					allowed[t.heap] = append(allowed[t.heap], t.idx)
				}
			}
		}
		x.inSpec--
	}
	for _, n := range x.allHeapNames(st) {
		if strings.HasPrefix(n, "L$") || strings.HasPrefix(n, "I$") || wholeOK[n] || n == "G$held" || n == "G$published" {
			continue
		}
		cur, ok := st.heaps[n]
		if !ok {
			continue
		}
		srt := x.heapSorts[n]
		entry := x.heap(fr.entry, n, srt)
		if cur == entry {
			continue
		}
		is, _ := splitArraySort(srt)
		if is != "Int" {
			continue
		}
		q := tt.Bound("q", "Int")
		var exc []*Term
		for _, a := range allowed[n] {
			exc = append(exc, tt.Eq(q, a))
		}
		isFx := false
		for _, e := range x.effectHeaps(st) {
			if e == n {
				isFx = true
			}
		}
		var g *Term
		if isFx {
			// a change is fine wherever the discipline does not promise stability
			g = tt.Forall([]*Term{q}, tt.Or(append(exc, tt.Not(x.keepCond(fr.entry, n, q, recv)), tt.Eq(tt.Select(cur, q), tt.Select(entry, q)))...))
		} else {
			// heaps of immutable types: only objects created by this call (or scratch objects from a pool) may be written
			exc = append(exc, x.poolOrFresh(fr.entry, q))
			for _, fa := range x.embeddersOfAny(n) {
				b := tt.UF("inv$"+fa, "Int", q)
				exc = append(exc, tt.And(tt.Eq(q, tt.UF(fa, "Int", b)), x.poolOrFresh(fr.entry, b)))
			}
			g = tt.Forall([]*Term{q}, tt.Or(append(exc, tt.Eq(tt.Select(cur, q), tt.Select(entry, q)))...))
		}
		x.oblige(fr, st, class, detail+n, tags, g, "changes to "+n+" stay within the validation-effects discipline")
	}
}

// embeddersOfAny: like embeddersOf but over all packages' named struct types used so far (immutable heaps: spec types).
func (x *Exec) embeddersOfAny(heap string) []string {
	if !strings.HasPrefix(heap, "H$") {
		return nil
	}
	U := heapTypeName(heap)
	var out []string
	for name := range x.tt.Funs {
		if strings.HasPrefix(name, "fa$") {
			// fa$T$g : field g of T; we cannot recover the field type from the name alone, so rely on recorded field types
			if x.faFieldType[name] == U {
				out = append(out, name)
			}
		}
	}
	sort.Strings(out)
	return out
}

// ---------- descendant / ownership facts

// noteChildLoad: child (a pointer to a validator object) was read from a field or slot of parent.
func (x *Exec) noteChildLoad(parent, child *Term) {
	if parent.hasBound || child.hasBound || x.prog.Cons.ValidatorTypes == nil {
		return
	}
	tt := x.tt
	key := fmt.Sprintf("%d|%d", parent.id, child.id)
	if x.childSeen[key] {
		return
	}
	x.childSeen[key] = true
	nz := tt.Not(tt.Eq(child, tt.IntLit(0)))
	// stored children are descendants; the forest of validator objects is acyclic
	x.addPermFact(tt.Implies(nz, tt.And(x.descT(child, parent), tt.Or(tt.Eq(child, parent), tt.Not(x.descT(parent, child))))))
	for _, sib := range x.childrenOf[parent.id] {
		if sib != child {
			x.addPermFact(tt.Implies(tt.And(nz, tt.Not(tt.Eq(sib, tt.IntLit(0))), tt.Not(tt.Eq(sib, child))), tt.And(tt.Not(x.descT(sib, child)), tt.Not(x.descT(child, sib)))))
		}
	}
	x.childrenOf[parent.id] = append(x.childrenOf[parent.id], child)
	// descendants of a child are descendants of the parent (stated over plain constants so that the trigger is a valid pattern)
	ca, pa := child, parent
	if ca.Kind != KSym {
		ca = tt.Fresh("child", "Int")
		x.addPermFact(tt.Eq(ca, child))
	}
	if pa.Kind != KSym {
		pa = tt.Fresh("parent", "Int")
		x.addPermFact(tt.Eq(pa, parent))
	}
	q := tt.Bound("q", "Int")
	x.addPermFact(tt.Implies(nz, tt.Forall([]*Term{q}, tt.Implies(x.descT(q, ca), x.descT(q, pa)), []*Term{x.descT(q, ca)})))
}

func (x *Exec) isValidatorPtrType(T types.Type) bool {
	p, ok := T.Underlying().(*types.Pointer)
	if !ok {
		return false
	}
	return x.isValidatorTypeName(typeName(p.Elem()))
}

// validatorOwnerOfAddr: if address p lies inside (or is a field of) a validator object, return that object.
func (x *Exec) validatorOwnerOfAddr(st *State, p *Term) *Term {
	switch shapeOf(p) {
	case shField:
		if x.isValidatorTypeName(faTypeName(p)) {
			return p.Args[0]
		}
	case shElem:
		arr := p.Args[0]
		if shapeOf(arr) == shField && x.isValidatorTypeName(faTypeName(arr)) {
			return arr.Args[0]
		}
		// heap array owned by a validator object
		if o, ok := x.arrOwnerHint[arr.id]; ok {
			return o
		}
	}
	return nil
}

var _ = ssa.NewProgram

// pooledClosure: pooled types and every struct type embedded (as a field) in them, transitively.
func (x *Exec) pooledClosure() map[string]bool {
	if x.pooledCl != nil {
		return x.pooledCl
	}
	x.pooledCl = map[string]bool{}
	var add func(T types.Type)
	add = func(T types.Type) {
		tn := typeName(T)
		if x.pooledCl[tn] {
			return
		}
		x.pooledCl[tn] = true
		if st, ok := T.Underlying().(*types.Struct); ok {
			for i := 0; i < st.NumFields(); i++ {
				if _, isS := st.Field(i).Type().Underlying().(*types.Struct); isS {
					add(st.Field(i).Type())
				}
			}
		}
	}
	for tn := range x.prog.Cons.PooledTypes {
		add(x.lookupType(tn))
	}
	return x.pooledCl
}

// registerFieldAddrs records, for every struct-typed field of the named struct types of the packages involved,
// the field-address function and the field's type (needed to recognise embedded struct addresses).
func (x *Exec) registerFieldAddrs() {
	seen := map[string]bool{}
	var visit func(T types.Type)
	visit = func(T types.Type) {
		tn := typeName(T)
		if seen[tn] {
			return
		}
		seen[tn] = true
		st, ok := T.Underlying().(*types.Struct)
		if !ok {
			return
		}
		for i := 0; i < st.NumFields(); i++ {
			ft := st.Field(i).Type()
			switch ft.Underlying().(type) {
			case *types.Struct:
				x.faFieldType["fa$"+tn+"$"+st.Field(i).Name()] = typeName(ft)
				visit(ft)
			}
		}
	}
	for _, sp := range x.prog.SSA.AllPackages() {
		pp := sp.Pkg.Path()
		if !(strings.HasPrefix(pp, mainPath) || strings.HasPrefix(pp, "github.com/go-openapi/spec") || strings.HasPrefix(pp, "github.com/go-openapi/jsonreference")) {
			continue
		}
		sc := sp.Pkg.Scope()
		for _, n := range sc.Names() {
			if tn, ok := sc.Lookup(n).(*types.TypeName); ok {
				visit(tn.Type())
			}
		}
	}
}

// ---------- local write checks (functions with `effects validation`)

// topEffects: the function under verification has validation effects.
func (x *Exec) topEffects() bool {
	return x.con != nil && x.con.Effects == "validation"
}

// checkWrite: every write of a function with validation effects stays within the discipline, i.e. hits a cell whose
// stability the discipline does not promise to callers (pool / fresh objects, the receiver's subtree, declared modifies).
func (x *Exec) checkWrite(heap string, idx *Term) {
	if !x.topEffects() || x.quiet || x.noWriteCheck > 0 || x.curPC == nil || x.topFrame == nil {
		return
	}
	if strings.HasPrefix(heap, "L$") || strings.HasPrefix(heap, "I$") || heap == "G$held" || heap == "G$published" || x.isUnframedHeap(heap) {
		return
	}
	fr, st := x.curFrameOr(x.topFrame), &State{pc: x.curPC}
	tt := x.tt
	if idx == nil {
		x.oblige(fr, st, "write-ok", heap+"|whole|"+x.lineAnchor(x.curPos), x.effectTags(), tt.False(), "whole-heap effect on "+heap+" (uncontracted callee?) cannot be shown to respect the validation-effects discipline")
		return
	}
	if idx.hasBound {
		return
	}
	if idx.Kind == KSym && strings.HasPrefix(idx.Op, "new$") {
		return // allocated by this very function
	}
	g := x.writeAllowed(x.topFrame, heap, idx)
	x.oblige(fr, st, "write-ok", heap+"|"+x.lineAnchor(x.curPos), x.effectTags(), g, "write to "+heap+" stays within the validation-effects discipline (pool/fresh object, receiver subtree, or declared modifies)")
}

func (x *Exec) curFrameOr(f *Frame) *Frame {
	if x.curFrame != nil {
		return x.curFrame
	}
	return f
}

func (x *Exec) effectTags() []string {
	return x.con.frameTagsPlus([]string{"C12", "C08", "C04", "C05"})
}

func (x *Exec) writeAllowed(fr *Frame, heap string, idx *Term) *Term {
	tt := x.tt
	recv := x.recvTerm(fr)
	var alts []*Term
	isFx := false
	for _, e := range x.effectHeaps(fr.entry) {
		if e == heap {
			isFx = true
		}
	}
	if _, ok := x.heapSorts[heap]; ok && !isFx {
		// (heap may have been created after entry)
		if heap == "G$redeemed" || heap == "G$owner" || heap == "G$ready" || strings.HasPrefix(heap, "A$") || strings.HasPrefix(heap, "D$") || strings.HasPrefix(heap, "V$") ||
			(strings.HasPrefix(heap, "H$") && (x.isMutableTypeName(heapTypeName(heap)) || x.pooledClosure()[heapTypeName(heap)])) {
			isFx = true
		}
	}
	isArr := strings.HasPrefix(heap, "A$") || strings.HasPrefix(heap, "D$") || strings.HasPrefix(heap, "V$")
	if isFx && isArr && x.curStateForOwner != nil {
		// arrays / maps: decided by their current owner (ownership of arrays that are stable for callers cannot change,
		// because writes to G$owner are checked against the entry state)
		o := x.ownerOf(x.curStateForOwner, idx)
		ownerOK := tt.Or(x.poolOrFresh(fr.entry, o))
		if recv != nil {
			ownerOK = tt.Or(ownerOK, x.descT(o, recv))
		}
		alts = append(alts, tt.Ge(tt.UF("birth$", "Int", idx), fr.entry.clk))
		alts = append(alts, tt.Eq(idx, tt.IntLit(0))) // the nil array / nil map has no cells
		alts = append(alts, tt.And(tt.Not(tt.Eq(o, tt.IntLit(0))), ownerOK))
		for _, fa := range x.arrayEmbedders() {
			b := tt.UF("inv$"+fa, "Int", idx)
			c := tt.And(tt.Eq(idx, tt.UF(fa, "Int", b)), tt.Or(x.poolOrFresh(fr.entry, b)))
			if recv != nil {
				c = tt.And(tt.Eq(idx, tt.UF(fa, "Int", b)), tt.Or(x.poolOrFresh(fr.entry, b), x.descT(b, recv)))
			}
			alts = append(alts, c)
		}
	} else if isFx {
		alts = append(alts, tt.Not(x.keepCond(fr.entry, heap, idx, recv)))
	} else {
		alts = append(alts, x.poolOrFresh(fr.entry, idx))
		for _, fa := range x.embeddersOfAny(heap) {
			b := tt.UF("inv$"+fa, "Int", idx)
			alts = append(alts, tt.And(tt.Eq(idx, tt.UF(fa, "Int", b)), x.poolOrFresh(fr.entry, b)))
		}
	}
	for _, a := range x.explicitTargets(fr)[heap] {
		alts = append(alts, tt.Eq(idx, a))
	}
	return tt.Or(alts...)
}

func (x *Exec) explicitTargets(fr *Frame) map[string][]*Term {
	if x.explTargets != nil {
		return x.explTargets
	}
	x.explTargets = map[string][]*Term{}
	if fr.con == nil {
		return x.explTargets
	}
	env := x.contractEnv(fr, fr.entry, fr.entry, nil)
	x.inSpec++
	x.noWriteCheck++
	for _, m := range fr.con.Modifies {
		for _, t := range env.lvalueTargets(m) {
			if !t.whole {
				x.explTargets[t.heap] = append(x.explTargets[t.heap], t.idx)
			}
		}
	}
	x.noWriteCheck--
	x.inSpec--
	return x.explTargets
}

// frameSoFar(q): since every earlier write of this function was checked against the discipline, a cell that the
// discipline keeps for this function's callers still has its entry pool-state and ownership.
func (x *Exec) frameSoFar(top *Frame, now *State, q *Term) *Term {
	tt := x.tt
	myRecv := x.recvTerm(top)
	redE := x.heap(top.entry, "G$redeemed", arraySort("Int", "Bool"))
	redN := x.heap(now, "G$redeemed", arraySort("Int", "Bool"))
	ownE := x.heap(top.entry, "G$owner", arraySort("Int", "Int"))
	ownN := x.heap(now, "G$owner", arraySort("Int", "Int"))
	return tt.And(
		tt.Implies(x.keepCond(top.entry, "G$redeemed", q, myRecv), tt.Eq(tt.Select(redN, q), tt.Select(redE, q))),
		tt.Implies(x.keepCond(top.entry, "G$owner", q, myRecv), tt.Eq(tt.Select(ownN, q), tt.Select(ownE, q))))
}

// checkCallEffects: a callee with validation effects (receiver c) only touches what the caller itself may touch:
// whatever the discipline promises to the caller's callers (keep at entry) is also kept by the callee.
func (x *Exec) checkCallEffects(fr *Frame, st, pre *State, recv *Term, key string) {
	if !x.topEffects() || x.quiet {
		return
	}
	top := x.topFrame
	tt := x.tt
	myRecv := x.recvTerm(top)
	kinds := []struct{ name, heap string }{{"objects", "G$redeemed"}, {"validator-objects", "H$typeValidator$Path"}, {"arrays", "A$error"}, {"readiness", "G$ready"}}
	if x.pooledClosure()["spec.SchemaProps"] {
		kinds = append(kinds, struct{ name, heap string }{"pooled-embedded", "H$spec.SchemaProps$Type"})
	}
	for _, k := range kinds {
		q := tt.Bound("q", "Int")
		hyp := x.frameSoFar(top, pre, q)
		if k.name == "arrays" {
			// the owner of the array matters too
			hyp = tt.And(hyp, x.frameSoFar(top, pre, x.ownerOf(top.entry, q)), x.frameSoFar(top, pre, x.ownerOf(pre, q)))
			for _, fa := range x.arrayEmbedders() {
				hyp = tt.And(hyp, x.frameSoFar(top, pre, tt.UF("inv$"+fa, "Int", q)))
			}
		}
		for _, fa := range x.embeddersOfAny(k.heap) {
			hyp = tt.And(hyp, x.frameSoFar(top, pre, tt.UF("inv$"+fa, "Int", q)))
		}
		if strings.HasPrefix(k.heap, "H$") && !x.isValidatorTypeName(heapTypeName(k.heap)) {
			// cells of this heap belong to objects that are not validator objects
			hyp = tt.And(hyp, tt.Not(tt.UF("isval$", "Bool", q)))
			for _, fa := range x.embeddersOfAny(k.heap) {
				hyp = tt.And(hyp, tt.Not(tt.UF("isval$", "Bool", tt.UF("inv$"+fa, "Int", q))))
			}
		}
		concl := x.keepCond(pre, k.heap, q, recv)
		if k.name == "readiness" && recv != nil {
			// A receiver that sat in a pool (or did not exist) when this function was entered is not part of the
			// slot tree of any validator that was ready then (ready means: all descendants live), and this function
			// cannot link it under such a validator without writing its slots (write-ok). So the readiness of the
			// objects this function keeps is not affected by running that receiver.
			concl = tt.Or(concl, tt.And(tt.Not(x.poolOrFresh(pre, q)), tt.Not(x.descT(q, recv)), x.poolOrFresh(top.entry, recv)))
		}
		g := tt.Forall([]*Term{q}, tt.Implies(tt.And(hyp, x.keepCond(top.entry, k.heap, q, myRecv)), concl))
		x.obligeNoAssume(fr, st, "call-effects", shortKey(key)+":"+k.name+"|"+x.lineAnchor(x.curPos), x.effectTags(), g, "callee "+key+" stays within this function's own validation-effects discipline ("+k.name+")")
	}
}

// isUnframedHeap: heaps of types about which the discipline promises nothing (always considered changed by calls,
// writes never checked): bookkeeping structures whose content is specified separately (schemata for C18/C19).
func (x *Exec) isUnframedHeap(h string) bool {
	if x.prog.Cons.UnframedTypes[h] {
		return true
	}
	if !strings.HasPrefix(h, "H$") {
		return false
	}
	return x.prog.Cons.UnframedTypes[heapTypeName(h)]
}

// restoreSelf: inside a method of a validator object `me`, a call with validation effects on something else does not
// touch me's own cells provided me is live and not a descendant of the callee's receiver. That proviso is an
// obligation at the call site; the cells are then restored syntactically (so that later reads of me's fields and
// slots yield the very same terms as before the call).
func (x *Exec) restoreSelf(fr *Frame, st, pre *State, recv *Term, key string) {
	if x.topFrame == nil || x.quiet && false {
		return
	}
	me := x.recvTerm(x.topFrame)
	if me == nil || me == recv {
		return
	}
	tt := x.tt
	g := tt.Not(x.poolOrFresh(pre, me))
	if recv != nil {
		g = tt.And(g, tt.Not(x.descT(me, recv)))
	}
	if !x.quiet {
		x.oblige(fr, &State{pc: st.pc}, "self-stable", shortKey(key)+"|"+x.lineAnchor(x.curPos), []string{"C04", "C05", "C08", "C11"}, g, "the running validator is live and not a descendant of the object it calls ("+key+")")
	}
	myType := typeName(x.topFrame.fn.Params[0].Type().Underlying().(*types.Pointer).Elem())
	for _, n := range x.effectHeaps(st) {
		cur, ok := st.heaps[n]
		if !ok || !(cur.Kind == KApp && strings.HasPrefix(cur.Op, "mix$")) {
			continue
		}
		old := cur.Args[0]
		switch {
		case n == "G$redeemed":
			st.heaps[n] = tt.Store(cur, me, tt.Select(old, me))
		case strings.HasPrefix(n, "H$") && heapTypeName(n) == myType:
			st.heaps[n] = tt.Store(cur, me, tt.Select(old, me))
		case strings.HasPrefix(n, "A$"):
			h := cur
			for _, fa := range x.arrayEmbedders() {
				if strings.HasPrefix(fa, "fa$"+myType+"$") {
					addr := tt.UF(fa, "Int", me)
					h = tt.Store(h, addr, tt.Select(old, addr))
				}
			}
			st.heaps[n] = h
		}
	}
}


// loopMix: at a loop head of a function under the validation-effects discipline, a heap written in the loop is not
// forgotten wholesale: every write is checked against the discipline (write-ok) and every call against it
// (call-effects), so the cells the discipline keeps for this function's callers still hold their entry values at
// every program point. The heap becomes mix(entry heap, unknown) under the entry keep-condition, with the function's
// declared modifies targets unknown as well.
func (x *Exec) loopMix(fr *Frame, st *State, n, srt, lname string) bool {
	if !x.topEffects() || x.topFrame == nil {
		return false
	}
	is, es := splitArraySort(srt)
	if is != "Int" {
		return false
	}
	isFx := false
	for _, e := range x.effectHeaps(st) {
		if e == n {
			isFx = true
		}
	}
	if !isFx || x.isUnframedHeap(n) {
		return false
	}
	tt := x.tt
	if tt.SelectHook == nil {
		tt.SelectHook = x.selectMix
	}
	top := x.topFrame
	entryH := x.heap(top.entry, n, srt)
	unk := tt.Fresh(n+"@"+lname, srt)
	x.mixN++
	op := fmt.Sprintf("mix$%d", x.mixN)
	x.mixInfo[op] = mixRec{heap: n, pre: top.entry, recv: x.recvTerm(top)}
	tt.Funs[op] = FunSig{Args: []string{srt, srt}, Ret: srt}
	h := tt.App(op, srt, entryH, unk)
	for _, idx := range x.explicitTargets(top)[n] {
		h = tt.Store(h, idx, tt.Fresh(n+"@"+lname+"m", es))
	}
	st.heaps[n] = h
	return true
}
