package main

// SMT term DAG with hash-consing and light simplification.

import (
	"fmt"
	"math/big"
	"sort"
	"strconv"
	"strings"
)

type TKind int

const (
	KLit   TKind = iota // literal (printed as Op)
	KSym                // free symbol (declared)
	KApp                // application of Op to Args
	KBound              // bound variable
	KQuant              // forall/exists; Args[0] body; Vars bound
)

type Term struct {
	Kind     TKind
	Op       string
	Args     []*Term
	Sort     string
	Vars     []*Term   // for KQuant
	Pats     [][]*Term // for KQuant
	id       int
	hasBound bool
	fvs      []int // ids of free bound variables
}

type TermTable struct {
	// SelectHook expands reads of "mixed" heaps (see effects.go): select(mix(H, F), q) = ite(keep(q), H[q], F[q])
	SelectHook func(a, i *Term) *Term
	selMemo map[[2]int]*Term
	tab   map[string]*Term
	n     int
	fresh map[string]int
	// uninterpreted function signatures: name -> "(argsorts) ret"
	Funs map[string]FunSig
	// symbols: name -> sort
	Syms map[string]string
}

type FunSig struct {
	Args []string
	Ret  string
}

func NewTermTable() *TermTable {
	return &TermTable{tab: map[string]*Term{}, fresh: map[string]int{}, Funs: map[string]FunSig{}, Syms: map[string]string{}}
}

func (tt *TermTable) intern(t *Term) *Term {
	var sb strings.Builder
	sb.WriteString(strconv.Itoa(int(t.Kind)))
	sb.WriteByte('|')
	sb.WriteString(t.Op)
	sb.WriteByte('|')
	sb.WriteString(t.Sort)
	for _, a := range t.Args {
		sb.WriteByte(',')
		sb.WriteString(strconv.Itoa(a.id))
	}
	for _, v := range t.Vars {
		sb.WriteByte(';')
		sb.WriteString(strconv.Itoa(v.id))
	}
	for _, p := range t.Pats {
		sb.WriteByte('#')
		for _, q := range p {
			sb.WriteString(strconv.Itoa(q.id))
			sb.WriteByte('.')
		}
	}
	k := sb.String()
	if x, ok := tt.tab[k]; ok {
		return x
	}
	tt.n++
	t.id = tt.n
	// free bound variables
	fv := map[int]bool{}
	if t.Kind == KBound {
		fv[t.id] = true
	}
	for _, a := range t.Args {
		for _, v := range a.fvs {
			fv[v] = true
		}
	}
	for _, p := range t.Pats {
		for _, q := range p {
			for _, v := range q.fvs {
				fv[v] = true
			}
		}
	}
	if t.Kind == KQuant {
		for _, v := range t.Vars {
			delete(fv, v.id)
		}
	}
	for v := range fv {
		t.fvs = append(t.fvs, v)
	}
	sort.Ints(t.fvs)
	t.hasBound = len(t.fvs) > 0
	tt.tab[k] = t
	return t
}

// ---- basic constructors

func (tt *TermTable) Lit(s, sort string) *Term { return tt.intern(&Term{Kind: KLit, Op: s, Sort: sort}) }
func (tt *TermTable) Sym(name, sort string) *Term {
	if old, ok := tt.Syms[name]; ok && old != sort {
		panic(fmt.Sprintf("symbol %s redeclared with sort %s (was %s)", name, sort, old))
	}
	tt.Syms[name] = sort
	return tt.intern(&Term{Kind: KSym, Op: name, Sort: sort})
}
func (tt *TermTable) Fresh(prefix, sort string) *Term {
	tt.fresh[prefix]++
	return tt.Sym(fmt.Sprintf("%s!%d", prefix, tt.fresh[prefix]), sort)
}
func (tt *TermTable) Bound(name, sort string) *Term {
	tt.fresh["$b"]++
	return tt.intern(&Term{Kind: KBound, Op: fmt.Sprintf("%s_b%d", name, tt.fresh["$b"]), Sort: sort})
}
func (tt *TermTable) App(op, sort string, args ...*Term) *Term {
	return tt.intern(&Term{Kind: KApp, Op: op, Sort: sort, Args: args})
}

// UF application; registers the signature.
func (tt *TermTable) UF(name, ret string, args ...*Term) *Term {
	sig := FunSig{Ret: ret}
	for _, a := range args {
		sig.Args = append(sig.Args, a.Sort)
	}
	if old, ok := tt.Funs[name]; ok {
		if old.Ret != ret || strings.Join(old.Args, " ") != strings.Join(sig.Args, " ") {
			panic(fmt.Sprintf("UF %s signature mismatch: (%v)->%s vs (%v)->%s", name, old.Args, old.Ret, sig.Args, ret))
		}
	} else {
		tt.Funs[name] = sig
	}
	if len(args) == 0 {
		return tt.Sym(name, ret)
	}
	// inverse of a field-address function applied to that function
	if strings.HasPrefix(name, "inv$") && len(args) == 1 && args[0].Kind == KApp && args[0].Op == name[4:] {
		return args[0].Args[0]
	}
	return tt.App(name, ret, args...)
}

func (tt *TermTable) True() *Term  { return tt.Lit("true", "Bool") }
func (tt *TermTable) False() *Term { return tt.Lit("false", "Bool") }
func (tt *TermTable) Bool(b bool) *Term {
	if b {
		return tt.True()
	}
	return tt.False()
}
func isTrue(t *Term) bool  { return t.Kind == KLit && t.Op == "true" }
func isFalse(t *Term) bool { return t.Kind == KLit && t.Op == "false" }

func (tt *TermTable) Not(a *Term) *Term {
	if isTrue(a) {
		return tt.False()
	}
	if isFalse(a) {
		return tt.True()
	}
	if a.Kind == KApp && a.Op == "not" {
		return a.Args[0]
	}
	return tt.App("not", "Bool", a)
}

func (tt *TermTable) And(xs ...*Term) *Term {
	var out []*Term
	seen := map[int]bool{}
	var add func(x *Term) bool
	add = func(x *Term) bool {
		if isTrue(x) {
			return true
		}
		if isFalse(x) {
			return false
		}
		if x.Kind == KApp && x.Op == "and" {
			for _, y := range x.Args {
				if !add(y) {
					return false
				}
			}
			return true
		}
		if !seen[x.id] {
			seen[x.id] = true
			out = append(out, x)
		}
		return true
	}
	for _, x := range xs {
		if !add(x) {
			return tt.False()
		}
	}
	for _, x := range out {
		if x.Kind == KApp && x.Op == "not" && seen[x.Args[0].id] {
			return tt.False()
		}
	}
	switch len(out) {
	case 0:
		return tt.True()
	case 1:
		return out[0]
	}
	return tt.App("and", "Bool", out...)
}

func (tt *TermTable) Or(xs ...*Term) *Term {
	var out []*Term
	seen := map[int]bool{}
	var add func(x *Term) bool
	add = func(x *Term) bool {
		if isFalse(x) {
			return true
		}
		if isTrue(x) {
			return false
		}
		if x.Kind == KApp && x.Op == "or" {
			for _, y := range x.Args {
				if !add(y) {
					return false
				}
			}
			return true
		}
		if !seen[x.id] {
			seen[x.id] = true
			out = append(out, x)
		}
		return true
	}
	for _, x := range xs {
		if !add(x) {
			return tt.True()
		}
	}
	for _, x := range out {
		if x.Kind == KApp && x.Op == "not" && seen[x.Args[0].id] {
			return tt.True()
		}
	}
	switch len(out) {
	case 0:
		return tt.False()
	case 1:
		return out[0]
	}
	return tt.App("or", "Bool", out...)
}

func (tt *TermTable) Implies(a, b *Term) *Term {
	if isTrue(a) {
		return b
	}
	if isFalse(a) || isTrue(b) {
		return tt.True()
	}
	if isFalse(b) {
		return tt.Not(a)
	}
	if a == b {
		return tt.True()
	}
	return tt.App("=>", "Bool", a, b)
}

func (tt *TermTable) Ite(c, a, b *Term) *Term {
	if isTrue(c) {
		return a
	}
	if isFalse(c) {
		return b
	}
	if a == b {
		return a
	}
	if a.Sort != b.Sort {
		panic(fmt.Sprintf("ite sort mismatch %s vs %s: %s / %s", a.Sort, b.Sort, a, b))
	}
	if a.Sort == "Bool" {
		if isTrue(a) && isFalse(b) {
			return c
		}
		if isFalse(a) && isTrue(b) {
			return tt.Not(c)
		}
		if isTrue(a) {
			return tt.Or(c, b)
		}
		if isFalse(a) {
			return tt.And(tt.Not(c), b)
		}
		if isTrue(b) {
			return tt.Or(tt.Not(c), a)
		}
		if isFalse(b) {
			return tt.And(c, a)
		}
	}
	// ite(c, x, ite(c, y, z)) = ite(c,x,z)
	if b.Kind == KApp && b.Op == "ite" && b.Args[0] == c {
		return tt.Ite(c, a, b.Args[2])
	}
	if a.Kind == KApp && a.Op == "ite" && a.Args[0] == c {
		return tt.Ite(c, a.Args[1], b)
	}
	return tt.App("ite", a.Sort, c, a, b)
}

func isLit(t *Term) bool { return t.Kind == KLit }

func (tt *TermTable) Eq(a, b *Term) *Term {
	if a == b {
		return tt.True()
	}
	if a.Sort != b.Sort {
		panic(fmt.Sprintf("eq sort mismatch %s vs %s: %s / %s", a.Sort, b.Sort, a, b))
	}
	if isLit(a) && isLit(b) && !strings.HasPrefix(a.Sort, "(_ FloatingPoint") && a.Sort != "Float64" && a.Sort != "Float32" {
		return tt.False() // distinct literals of same sort (hash-consed)
	}
	if a.Sort == "Bool" {
		if isTrue(a) {
			return b
		}
		if isTrue(b) {
			return a
		}
		if isFalse(a) {
			return tt.Not(b)
		}
		if isFalse(b) {
			return tt.Not(a)
		}
	}
	// distribute over ite with literal branches: (ite c L1 L2) == L -> simplifies
	if b.Kind == KLit && a.Kind == KApp && a.Op == "ite" {
		return tt.Ite(a.Args[0], tt.Eq(a.Args[1], b), tt.Eq(a.Args[2], b))
	}
	if a.Kind == KLit && b.Kind == KApp && b.Op == "ite" {
		return tt.Ite(b.Args[0], tt.Eq(a, b.Args[1]), tt.Eq(a, b.Args[2]))
	}
	// constructor applications of datatypes: compare heads
	if a.Kind == KApp && b.Kind == KApp && isCtor(a.Op) && isCtor(b.Op) {
		if a.Op != b.Op {
			return tt.False()
		}
		var cs []*Term
		for i := range a.Args {
			cs = append(cs, tt.Eq(a.Args[i], b.Args[i]))
		}
		return tt.And(cs...)
	}
	if (a.Kind == KLit && b.Kind == KApp && isCtor(b.Op)) || (b.Kind == KLit && a.Kind == KApp && isCtor(a.Op)) {
		return tt.False()
	}
	if a.id > b.id {
		a, b = b, a
	}
	return tt.App("=", "Bool", a, b)
}

// datatype constructors known to the engine (for simplification)
var ctorNames = map[string]bool{}
var ctorFields = map[string][]string{} // ctor -> selector names

func isCtor(op string) bool { return ctorNames[op] }

func (tt *TermTable) Ctor(name, sort string, args ...*Term) *Term {
	if len(args) == 0 {
		return tt.Lit(name, sort)
	}
	return tt.App(name, sort, args...)
}

// Selector application with simplification over constructor / ite.
func (tt *TermTable) Sel(selector, ctor, sort string, a *Term) *Term {
	if a.Kind == KApp && a.Op == ctor {
		for i, f := range ctorFields[ctor] {
			if f == selector {
				return a.Args[i]
			}
		}
	}
	if a.Kind == KApp && a.Op == "ite" {
		// push selector through ite when both branches are constructor apps of this ctor
		x, y := a.Args[1], a.Args[2]
		if (x.Kind == KApp && x.Op == ctor) || (y.Kind == KApp && y.Op == ctor) {
			return tt.Ite(a.Args[0], tt.Sel(selector, ctor, sort, x), tt.Sel(selector, ctor, sort, y))
		}
	}
	return tt.App(selector, sort, a)
}

// Tester (_ is ctor)
func (tt *TermTable) Is(ctor string, a *Term) *Term {
	if a.Kind == KApp && isCtor(a.Op) {
		return tt.Bool(a.Op == ctor)
	}
	if a.Kind == KLit && isCtor(a.Op) {
		return tt.Bool(a.Op == ctor)
	}
	if a.Kind == KApp && a.Op == "ite" {
		x, y := a.Args[1], a.Args[2]
		xc := (x.Kind == KApp || x.Kind == KLit) && isCtor(x.Op)
		yc := (y.Kind == KApp || y.Kind == KLit) && isCtor(y.Op)
		if xc || yc {
			return tt.Ite(a.Args[0], tt.Is(ctor, x), tt.Is(ctor, y))
		}
	}
	return tt.App("(_ is "+ctor+")", "Bool", a)
}

// ---- arrays

func arraySort(idx, elem string) string { return "(Array " + idx + " " + elem + ")" }

// splitArraySort returns index and element sort of "(Array I E)".
func splitArraySort(s string) (string, string) {
	if !strings.HasPrefix(s, "(Array ") {
		panic("not an array sort: " + s)
	}
	body := s[len("(Array ") : len(s)-1]
	// split at top-level space
	depth := 0
	for i, c := range body {
		switch c {
		case '(':
			depth++
		case ')':
			depth--
		case ' ':
			if depth == 0 {
				return body[:i], body[i+1:]
			}
		}
	}
	panic("bad array sort: " + s)
}

func containsMix(a *Term) bool {
	for a.Kind == KApp && a.Op == "store" {
		a = a.Args[0]
	}
	if a.Kind == KApp && strings.HasPrefix(a.Op, "mix$") {
		return true
	}
	if a.Kind == KApp && a.Op == "ite" {
		return containsMix(a.Args[1]) || containsMix(a.Args[2])
	}
	return false
}

func (tt *TermTable) Select(a, i *Term) *Term {
	if a.Kind != KApp {
		return tt.select1(a, i)
	}
	if tt.selMemo == nil {
		tt.selMemo = map[[2]int]*Term{}
	}
	k := [2]int{a.id, i.id}
	if r, ok := tt.selMemo[k]; ok {
		return r
	}
	r := tt.select1(a, i)
	tt.selMemo[k] = r
	return r
}

func (tt *TermTable) select1(a, i *Term) *Term {
	_, es := splitArraySort(a.Sort)
	for a.Kind == KApp && a.Op == "store" {
		j := a.Args[1]
		if j == i {
			return a.Args[2]
		}
		if tt.distinct(i, j) {
			a = a.Args[0]
			continue
		}
		if tt.SelectHook != nil && containsMix(a.Args[0]) {
			// read through the store so that the mixed heap underneath gets expanded
			return tt.Ite(tt.Eq(i, j), a.Args[2], tt.Select(a.Args[0], i))
		}
		break
	}
	if a.Kind == KApp && a.Op == "ite" && a.Args[1].Kind == KApp && a.Args[1].Op == "store" && a.Args[1].Args[0] == a.Args[2] && a.Args[1].Args[1] == i {
		// select(ite(c, store(A,i,v), A), i) = ite(c, v, select(A,i))
		return tt.Ite(a.Args[0], a.Args[1].Args[2], tt.Select(a.Args[2], i))
	}
	if a.Kind == KApp && a.Op == "const-array" {
		return a.Args[0]
	}
	if a.Kind == KApp && strings.HasPrefix(a.Op, "mix$") && tt.SelectHook != nil {
		if r := tt.SelectHook(a, i); r != nil {
			return r
		}
	}
	if a.Kind == KApp && a.Op == "ite" {
		c, xa, ya := a.Args[0], a.Args[1], a.Args[2]
		isStore := func(t *Term) bool {
			return t.Kind == KApp && (t.Op == "store" || strings.HasPrefix(t.Op, "mix$") || t.Op == "ite")
		}
		if isStore(xa) || isStore(ya) || (i.Kind == KApp && i.Op == "ite" && i.Args[0] == c) {
			ix, iy := i, i
			if i.Kind == KApp && i.Op == "ite" && i.Args[0] == c {
				ix, iy = i.Args[1], i.Args[2]
			}
			return tt.Ite(c, tt.Select(xa, ix), tt.Select(ya, iy))
		}
	}
	return tt.App("select", es, a, i)
}

func (tt *TermTable) Store(a, i, v *Term) *Term {
	_, es := splitArraySort(a.Sort)
	if v.Sort != es {
		panic(fmt.Sprintf("store sort mismatch: array %s value %s (%s)", a.Sort, v.Sort, v))
	}
	if a.Kind == KApp && a.Op == "store" && a.Args[1] == i {
		a = a.Args[0]
	}
	if v.Kind == KApp && v.Op == "select" && v.Args[0] == a && v.Args[1] == i {
		return a
	}
	return tt.App("store", a.Sort, a, i, v)
}

func (tt *TermTable) ConstArray(sort string, v *Term) *Term {
	return tt.App("const-array", sort, v)
}

// syntactic disequality
func (tt *TermTable) distinct(a, b *Term) bool {
	if a == b {
		return false
	}
	if a.Kind == KLit && b.Kind == KLit && a.Sort == b.Sort {
		return true
	}
	return false
}

// ---- integers (math mode)

func (tt *TermTable) IntLit(n int64) *Term {
	if n < 0 {
		return tt.Lit(fmt.Sprintf("(- %d)", -big.NewInt(n).Int64()), "Int").fixNeg(tt, n)
	}
	return tt.Lit(strconv.FormatInt(n, 10), "Int")
}

func (t *Term) fixNeg(tt *TermTable, n int64) *Term {
	// handle MinInt64 whose negation overflows
	if n == -9223372036854775808 {
		return tt.Lit("(- 9223372036854775808)", "Int")
	}
	return t
}

func (tt *TermTable) BigLit(n *big.Int) *Term {
	if n.Sign() < 0 {
		return tt.Lit("(- "+new(big.Int).Neg(n).String()+")", "Int")
	}
	return tt.Lit(n.String(), "Int")
}

func intVal(t *Term) (*big.Int, bool) {
	if t.Kind != KLit || t.Sort != "Int" {
		return nil, false
	}
	s := t.Op
	neg := false
	if strings.HasPrefix(s, "(- ") {
		neg = true
		s = s[3 : len(s)-1]
	}
	v, ok := new(big.Int).SetString(s, 10)
	if !ok {
		return nil, false
	}
	if neg {
		v.Neg(v)
	}
	return v, true
}

func (tt *TermTable) Add(a, b *Term) *Term {
	x, ok1 := intVal(a)
	y, ok2 := intVal(b)
	if ok1 && ok2 {
		return tt.BigLit(new(big.Int).Add(x, y))
	}
	if ok1 && x.Sign() == 0 {
		return b
	}
	if ok2 && y.Sign() == 0 {
		return a
	}
	// (x + c1) + c2
	if ok2 && a.Kind == KApp && a.Op == "+" && len(a.Args) == 2 {
		if z, ok := intVal(a.Args[1]); ok {
			return tt.Add(a.Args[0], tt.BigLit(new(big.Int).Add(z, y)))
		}
	}
	return tt.App("+", "Int", a, b)
}
func (tt *TermTable) Sub(a, b *Term) *Term {
	x, ok1 := intVal(a)
	y, ok2 := intVal(b)
	if ok1 && ok2 {
		return tt.BigLit(new(big.Int).Sub(x, y))
	}
	if ok2 {
		return tt.Add(a, tt.BigLit(new(big.Int).Neg(y)))
	}
	if a == b {
		return tt.IntLit(0)
	}
	return tt.App("-", "Int", a, b)
}
func (tt *TermTable) Mul(a, b *Term) *Term {
	x, ok1 := intVal(a)
	y, ok2 := intVal(b)
	if ok1 && ok2 {
		return tt.BigLit(new(big.Int).Mul(x, y))
	}
	return tt.App("*", "Int", a, b)
}
func (tt *TermTable) cmp(op string, a, b *Term) *Term {
	x, ok1 := intVal(a)
	y, ok2 := intVal(b)
	if ok1 && ok2 {
		c := x.Cmp(y)
		switch op {
		case "<":
			return tt.Bool(c < 0)
		case "<=":
			return tt.Bool(c <= 0)
		case ">":
			return tt.Bool(c > 0)
		case ">=":
			return tt.Bool(c >= 0)
		}
	}
	if a == b {
		return tt.Bool(op == "<=" || op == ">=")
	}
	return tt.App(op, "Bool", a, b)
}
func (tt *TermTable) Lt(a, b *Term) *Term { return tt.cmp("<", a, b) }
func (tt *TermTable) Le(a, b *Term) *Term { return tt.cmp("<=", a, b) }
func (tt *TermTable) Gt(a, b *Term) *Term { return tt.cmp(">", a, b) }
func (tt *TermTable) Ge(a, b *Term) *Term { return tt.cmp(">=", a, b) }

// ---- bitvectors

func bvSort(n int) string { return fmt.Sprintf("(_ BitVec %d)", n) }

func (tt *TermTable) BVLit(v *big.Int, width int) *Term {
	m := new(big.Int).Lsh(big.NewInt(1), uint(width))
	x := new(big.Int).Mod(v, m)
	if x.Sign() < 0 {
		x.Add(x, m)
	}
	return tt.Lit(fmt.Sprintf("(_ bv%s %d)", x.String(), width), bvSort(width))
}

func bvVal(t *Term) (*big.Int, int, bool) {
	if t.Kind != KLit || !strings.HasPrefix(t.Op, "(_ bv") {
		return nil, 0, false
	}
	parts := strings.Fields(t.Op[5 : len(t.Op)-1])
	v, _ := new(big.Int).SetString(parts[0], 10)
	w, _ := strconv.Atoi(parts[1])
	return v, w, true
}

func bvWidth(sort string) int {
	var n int
	fmt.Sscanf(sort, "(_ BitVec %d)", &n)
	return n
}

// ---- quantifiers

func (tt *TermTable) Forall(vars []*Term, body *Term, pats ...[]*Term) *Term {
	if isTrue(body) {
		return body
	}
	if len(vars) == 0 {
		return body
	}
	// flatten (forall xs (=> R (forall ys B))) into (forall xs ys (=> R B))
	if len(pats) == 0 {
		if body.Kind == KApp && body.Op == "=>" && body.Args[1].Kind == KQuant && body.Args[1].Op == "forall" && len(body.Args[1].Pats) == 0 {
			inner := body.Args[1]
			ib := inner.Args[0]
			var nb *Term
			if ib.Kind == KApp && ib.Op == "=>" {
				nb = tt.Implies(tt.And(body.Args[0], ib.Args[0]), ib.Args[1])
			} else {
				nb = tt.Implies(body.Args[0], ib)
			}
			return tt.Forall(append(append([]*Term{}, vars...), inner.Vars...), nb)
		}
		if body.Kind == KQuant && body.Op == "forall" && len(body.Pats) == 0 {
			return tt.Forall(append(append([]*Term{}, vars...), body.Vars...), body.Args[0])
		}
	}
	return tt.intern(&Term{Kind: KQuant, Op: "forall", Sort: "Bool", Args: []*Term{body}, Vars: vars, Pats: pats})
}
func (tt *TermTable) Exists(vars []*Term, body *Term, pats ...[]*Term) *Term {
	if isFalse(body) {
		return body
	}
	if len(vars) == 0 {
		return body
	}
	return tt.intern(&Term{Kind: KQuant, Op: "exists", Sort: "Bool", Args: []*Term{body}, Vars: vars, Pats: pats})
}

// Subst replaces terms by terms (by identity) throughout t.
func (tt *TermTable) Subst(t *Term, m map[*Term]*Term) *Term {
	memo := map[*Term]*Term{}
	var rec func(x *Term) *Term
	rec = func(x *Term) *Term {
		if r, ok := m[x]; ok {
			return r
		}
		if r, ok := memo[x]; ok {
			return r
		}
		var r *Term
		switch x.Kind {
		case KLit, KSym, KBound:
			r = x
		case KQuant:
			b := rec(x.Args[0])
			var pats [][]*Term
			for _, p := range x.Pats {
				var q []*Term
				for _, y := range p {
					q = append(q, rec(y))
				}
				pats = append(pats, q)
			}
			if x.Op == "forall" {
				r = tt.Forall(x.Vars, b, pats...)
			} else {
				r = tt.Exists(x.Vars, b, pats...)
			}
		default:
			changed := false
			args := make([]*Term, len(x.Args))
			for i, a := range x.Args {
				args[i] = rec(a)
				if args[i] != a {
					changed = true
				}
			}
			if !changed {
				r = x
			} else {
				r = tt.rebuild(x, args)
			}
		}
		memo[x] = r
		return r
	}
	return rec(t)
}

// rebuild re-applies simplifying constructors.
func (tt *TermTable) rebuild(x *Term, args []*Term) *Term {
	switch x.Op {
	case "and":
		return tt.And(args...)
	case "or":
		return tt.Or(args...)
	case "not":
		return tt.Not(args[0])
	case "=>":
		return tt.Implies(args[0], args[1])
	case "ite":
		return tt.Ite(args[0], args[1], args[2])
	case "=":
		return tt.Eq(args[0], args[1])
	case "select":
		return tt.Select(args[0], args[1])
	case "store":
		return tt.Store(args[0], args[1], args[2])
	case "+":
		if len(args) == 2 && x.Sort == "Int" {
			return tt.Add(args[0], args[1])
		}
	case "-":
		if len(args) == 2 && x.Sort == "Int" {
			return tt.Sub(args[0], args[1])
		}
	case "<", "<=", ">", ">=":
		if args[0].Sort == "Int" {
			return tt.cmp(x.Op, args[0], args[1])
		}
	}
	if strings.HasPrefix(x.Op, "(_ is ") {
		return tt.Is(x.Op[6:len(x.Op)-1], args[0])
	}
	return tt.App(x.Op, x.Sort, args...)
}

// ---- printing

func (t *Term) String() string {
	var sb strings.Builder
	t.print(&sb, nil)
	s := sb.String()
	if len(s) > 400 {
		return s[:400] + "…"
	}
	return s
}

func (t *Term) print(sb *strings.Builder, names map[int]string) {
	if names != nil {
		if n, ok := names[t.id]; ok {
			sb.WriteString(n)
			return
		}
	}
	switch t.Kind {
	case KLit, KBound:
		sb.WriteString(t.Op)
	case KSym:
		sb.WriteString(quoteSym(t.Op))
	case KQuant:
		sb.WriteString("(")
		sb.WriteString(t.Op)
		sb.WriteString(" (")
		for _, v := range t.Vars {
			sb.WriteString("(" + v.Op + " " + v.Sort + ")")
		}
		sb.WriteString(") ")
		if len(t.Pats) > 0 {
			sb.WriteString("(! ")
		}
		printWithLets(t.Args[0], sb, names)
		if len(t.Pats) > 0 {
			for _, p := range t.Pats {
				sb.WriteString(" :pattern (")
				for i, q := range p {
					if i > 0 {
						sb.WriteByte(' ')
					}
					q.print(sb, names)
				}
				sb.WriteString(")")
			}
			sb.WriteString(")")
		}
		sb.WriteString(")")
	case KApp:
		if t.Op == "const-array" {
			sb.WriteString("((as const " + t.Sort + ") ")
			t.Args[0].print(sb, names)
			sb.WriteString(")")
			return
		}
		sb.WriteString("(")
		if isUFName(t.Op) {
			sb.WriteString(quoteSym(t.Op))
		} else {
			sb.WriteString(t.Op)
		}
		for _, a := range t.Args {
			sb.WriteByte(' ')
			a.print(sb, names)
		}
		sb.WriteString(")")
	}
}

func isUFName(op string) bool {
	if strings.HasPrefix(op, "mix$") {
		return true
	}
	// UF names may contain characters that need quoting; builtin ops never start with a letter followed by '$'
	return strings.ContainsAny(op, "$!@#") && !strings.HasPrefix(op, "(_")
}

func quoteSym(s string) string {
	for _, c := range s {
		if !(c >= 'a' && c <= 'z' || c >= 'A' && c <= 'Z' || c >= '0' && c <= '9' || strings.ContainsRune("_.$!@~&^<>%*+-/=?", c)) {
			return "|" + s + "|"
		}
	}
	return s
}

// Script emission: given assertions, emit declarations + define-funs for shared nodes.
type Emitter struct {
	tt    *TermTable
	names map[int]string
	sb    *strings.Builder
	decl  map[string]bool
	nDef  int
}

func NewEmitter(tt *TermTable, sb *strings.Builder) *Emitter {
	return &Emitter{tt: tt, names: map[int]string{}, sb: sb, decl: map[string]bool{}}
}

// collect free symbols and UFs used in terms
func collectSyms(ts []*Term, syms map[string]string, funs map[string]bool) {
	seen := map[int]bool{}
	var rec func(x *Term)
	rec = func(x *Term) {
		if seen[x.id] {
			return
		}
		seen[x.id] = true
		if x.Kind == KSym {
			syms[x.Op] = x.Sort
		}
		if x.Kind == KApp {
			funs[x.Op] = true
		}
		for _, a := range x.Args {
			rec(a)
		}
		for _, p := range x.Pats {
			for _, q := range p {
				rec(q)
			}
		}
	}
	for _, t := range ts {
		rec(t)
	}
}

func (e *Emitter) Declare(ts []*Term) {
	syms := map[string]string{}
	funs := map[string]bool{}
	collectSyms(ts, syms, funs)
	var names []string
	for n := range syms {
		names = append(names, n)
	}
	sort.Strings(names)
	for _, n := range names {
		if e.decl["s:"+n] {
			continue
		}
		e.decl["s:"+n] = true
		if _, isFun := e.tt.Funs[n]; isFun {
			continue // zero-arity UFs declared below
		}
		fmt.Fprintf(e.sb, "(declare-fun %s () %s)\n", quoteSym(n), syms[n])
	}
	var fnames []string
	for n := range funs {
		if _, ok := e.tt.Funs[n]; ok {
			fnames = append(fnames, n)
		}
	}
	for n := range syms {
		if _, ok := e.tt.Funs[n]; ok {
			fnames = append(fnames, n)
		}
	}
	sort.Strings(fnames)
	for _, n := range fnames {
		if e.decl["f:"+n] {
			continue
		}
		e.decl["f:"+n] = true
		sig := e.tt.Funs[n]
		fmt.Fprintf(e.sb, "(declare-fun %s (%s) %s)\n", quoteSym(n), strings.Join(sig.Args, " "), sig.Ret)
	}
}

// Define emits define-funs for shared ground subterms of t (refcount>1 within all terms given so far).
func (e *Emitter) Define(ts []*Term) {
	// count references
	refs := map[int]int{}
	seen := map[int]bool{}
	var cnt func(x *Term)
	cnt = func(x *Term) {
		refs[x.id]++
		if seen[x.id] {
			return
		}
		seen[x.id] = true
		for _, a := range x.Args {
			cnt(a)
		}
	}
	for _, t := range ts {
		cnt(t)
	}
	done := map[int]bool{}
	var emit func(x *Term)
	emit = func(x *Term) {
		if done[x.id] {
			return
		}
		done[x.id] = true
		if _, ok := e.names[x.id]; ok {
			return
		}
		for _, a := range x.Args {
			emit(a)
		}
		if x.Kind == KApp && !x.hasBound && refs[x.id] > 1 {
			e.nDef++
			name := fmt.Sprintf("$t%d", e.nDef)
			var sb strings.Builder
			x.print(&sb, e.namesExcept(x.id))
			fmt.Fprintf(e.sb, "(define-fun %s () %s %s)\n", name, x.Sort, sb.String())
			e.names[x.id] = name
		}
	}
	for _, t := range ts {
		emit(t)
	}
}

func (e *Emitter) namesExcept(id int) map[int]string { return e.names }

func (e *Emitter) Str(t *Term) string {
	var sb strings.Builder
	t.print(&sb, e.names)
	return sb.String()
}

// size of term DAG
func termSize(ts ...*Term) int {
	seen := map[int]bool{}
	var rec func(x *Term)
	rec = func(x *Term) {
		if seen[x.id] {
			return
		}
		seen[x.id] = true
		for _, a := range x.Args {
			rec(a)
		}
	}
	for _, t := range ts {
		rec(t)
	}
	return len(seen)
}

// printWithLets prints a quantifier body; subterms that mention bound variables and occur more than once are
// bound with nested lets (ground shared subterms are already hoisted as define-funs).
func printWithLets(body *Term, sb *strings.Builder, names map[int]string) {
	refs := map[int]int{}
	var order []*Term
	seen := map[int]bool{}
	var walk func(x *Term)
	walk = func(x *Term) {
		if names != nil {
			if _, ok := names[x.id]; ok {
				return
			}
		}
		refs[x.id]++
		if seen[x.id] {
			return
		}
		seen[x.id] = true
		if x.Kind == KQuant {
			// nested quantifiers are printed by their own call
			return
		}
		for _, a := range x.Args {
			walk(a)
		}
		order = append(order, x) // post-order: children first
	}
	walk(body)
	local := map[int]string{}
	for k, v := range names {
		local[k] = v
	}
	nlets := 0
	for _, x := range order {
		if x.Kind == KApp && x.hasBound && refs[x.id] > 1 && x != body {
			name := fmt.Sprintf("$l%d_%d", body.id, x.id)
			var inner strings.Builder
			x.print(&inner, local)
			sb.WriteString("(let ((" + name + " " + inner.String() + ")) ")
			local[x.id] = name
			nlets++
		}
	}
	body.print(sb, local)
	for i := 0; i < nlets; i++ {
		sb.WriteString(")")
	}
}
