package main

// Evaluation of contract expressions (Go expression syntax) in a symbolic state.

import (
	"sort"
	"fmt"
	"go/ast"
	"go/constant"
	"go/token"
	"go/types"
	"math/big"
	"strconv"
	"strings"
)

type Env struct {
	foldMode int // 1: foldable predicates in goal position are folded (body proved); 2: unfolded (flag and body assumed)
	x      *Exec
	st     *State // current state
	old    *State // pre-state
	vars   map[string]Value
	vtypes map[string]types.Type
	fr     *Frame
	depth  int
}

type TV struct {
	V Value
	T types.Type
}

func (x *Exec) contractEnv(fr *Frame, st, old *State, results []Value) *Env {
	e := &Env{x: x, st: st, old: old, vars: map[string]Value{}, vtypes: map[string]types.Type{}, fr: fr}
	for n, v := range st.names {
		e.vars[n] = v
		if t, ok := x.nameTypes[n]; ok {
			e.vtypes[n] = t
		}
	}
	fn := fr.fn
	for i, p := range fn.Params {
		// parameters: entry values (contracts speak about arguments)
		e.vars[p.Name()] = fr.args[i]
		e.vtypes[p.Name()] = p.Type()
		if cur, ok := st.names[p.Name()]; ok && false {
			e.vars[p.Name()] = cur
		}
	}
	res := fn.Signature.Results()
	for i := 0; i < res.Len() && i < len(results); i++ {
		rn := res.At(i).Name()
		if rn != "" && rn != "_" {
			e.vars[rn] = results[i]
			e.vtypes[rn] = res.At(i).Type()
		}
		e.vars[fmt.Sprintf("result%d", i)] = results[i]
		e.vtypes[fmt.Sprintf("result%d", i)] = res.At(i).Type()
	}
	if len(results) == 1 {
		e.vars["result"] = results[0]
		e.vtypes["result"] = res.At(0).Type()
	}
	return e
}

func (e *Env) with(st *State) *Env {
	n := *e
	n.st = st
	n.foldMode = 0 // inside old(...) foldable predicates are plain flags
	return &n
}

func (e *Env) bind(name string, v Value, t types.Type) *Env {
	n := *e
	n.vars = map[string]Value{}
	n.vtypes = map[string]types.Type{}
	for k, v := range e.vars {
		n.vars[k] = v
	}
	for k, v := range e.vtypes {
		n.vtypes[k] = v
	}
	n.vars[name] = v
	n.vtypes[name] = t
	return &n
}

func (x *Exec) evalBool(env *Env, ex ast.Expr) *Term {
	x.inSpec++
	defer func() { x.inSpec-- }()
	tv := env.eval(ex)
	t, ok := tv.V.(*Term)
	if !ok || t.Sort != "Bool" {
		panic(fmt.Sprintf("contract expression is not boolean: %s", exprStr(ex)))
	}
	return t
}

func exprStr(e ast.Expr) string {
	return types.ExprString(e)
}

var (
	tInt     = types.Typ[types.Int]
	tBool    = types.Typ[types.Bool]
	tString  = types.Typ[types.String]
	tFloat64 = types.Typ[types.Float64]
	tInt64   = types.Typ[types.Int64]
	tUint64  = types.Typ[types.Uint64]
	tNil     = types.Typ[types.UntypedNil]
	tAny     = types.NewInterfaceType(nil, nil)
)

func (e *Env) eval(ex ast.Expr) TV {
	x := e.x
	tt := x.tt
	switch n := ex.(type) {
	case *ast.ParenExpr:
		return e.eval(n.X)
	case *ast.Ident:
		switch n.Name {
		case "true":
			return TV{tt.True(), tBool}
		case "false":
			return TV{tt.False(), tBool}
		case "nil":
			return TV{tt.IntLit(0), tNil}
		}
		if v, ok := e.vars[n.Name]; ok {
			t := e.vtypes[n.Name]
			if t == nil {
				panic("contract: no type known for variable " + n.Name)
			}
			return TV{v, t}
		}
		if e.fr != nil {
			if v, t, ok := x.lookupNameByDebugRefs(e.fr.fn, e.st, n.Name); ok {
				return TV{v, t}
			}
		}
		// package-level constant or variable
		for _, pk := range []*types.Package{x.prog.Main.Pkg, x.fnPkg()} {
			if pk == nil {
				continue
			}
			if obj := pk.Scope().Lookup(n.Name); obj != nil {
				switch o := obj.(type) {
				case *types.Const:
					return e.constTV(o.Val(), o.Type())
				case *types.Var:
					g := x.prog.SSA.Package(pk).Var(n.Name)
					if g != nil {
						addr := x.globalAddr(g)
						return TV{x.load(e.st, addr, o.Type()), o.Type()}
					}
				}
			}
		}
		panic("contract: unknown identifier " + n.Name)
	case *ast.BasicLit:
		switch n.Kind {
		case token.INT:
			v, _ := new(big.Int).SetString(n.Value, 0)
			return TV{x.bigC(v, tInt), types.Typ[types.UntypedInt]}
		case token.FLOAT:
			f, _ := strconv.ParseFloat(n.Value, 64)
			return TV{x.f64Lit(f), tFloat64}
		case token.STRING:
			s, _ := strconv.Unquote(n.Value)
			return TV{x.StrLit(s), tString}
		}
	case *ast.UnaryExpr:
		a := e.eval(n.X)
		switch n.Op {
		case token.NOT:
			return TV{tt.Not(asTerm(a.V)), tBool}
		case token.SUB:
			t := asTerm(a.V)
			if t.Sort == sF64 || t.Sort == sF32 {
				return TV{tt.App("fp.neg", t.Sort, t), a.T}
			}
			if x.bv {
				return TV{tt.App("bvneg", t.Sort, t), a.T}
			}
			return TV{tt.Sub(tt.IntLit(0), t), a.T}
		case token.AND:
			panic("contract: & not supported")
		}
	case *ast.BinaryExpr:
		return e.evalBinary(n)
	case *ast.StarExpr:
		p := e.eval(n.X)
		pt := p.T.Underlying().(*types.Pointer)
		return TV{x.load(e.st, asTerm(p.V), pt.Elem()), pt.Elem()}
	case *ast.SelectorExpr:
		// package-qualified constants (e.g. reflect.Slice)
		if id, ok := n.X.(*ast.Ident); ok {
			if _, isVar := e.vars[id.Name]; !isVar {
				if tv, ok := e.pkgConst(id.Name, n.Sel.Name); ok {
					return tv
				}
			}
		}
		base := e.eval(n.X)
		return e.selectField(base, n.Sel.Name)
	case *ast.IndexExpr:
		base := e.eval(n.X)
		idx := e.eval(n.Index)
		return e.index(base, idx)
	case *ast.CallExpr:
		return e.evalCall(n)
	}
	panic(fmt.Sprintf("contract: unsupported expression %s (%T)", exprStr(ex), ex))
}

func (x *Exec) fnPkg() *types.Package {
	if x.fn.Pkg != nil {
		return x.fn.Pkg.Pkg
	}
	if x.fn.Parent() != nil && x.fn.Parent().Pkg != nil {
		return x.fn.Parent().Pkg.Pkg
	}
	return nil
}

func (e *Env) pkgConst(pkg, name string) (TV, bool) {
	for _, p := range e.x.prog.SSA.AllPackages() {
		if p.Pkg.Name() == pkg {
			if obj := p.Pkg.Scope().Lookup(name); obj != nil {
				if c, ok := obj.(*types.Const); ok {
					return e.constTV(c.Val(), c.Type()), true
				}
				if v, ok := obj.(*types.Var); ok {
					if g := p.Var(name); g != nil {
						return TV{e.x.load(e.st, e.x.globalAddr(g), v.Type()), v.Type()}, true
					}
				}
			}
		}
	}
	return TV{}, false
}

func (e *Env) constTV(v constant.Value, t types.Type) TV {
	x := e.x
	switch v.Kind() {
	case constant.Bool:
		return TV{x.tt.Bool(constant.BoolVal(v)), t}
	case constant.String:
		return TV{x.StrLit(constant.StringVal(v)), t}
	case constant.Int:
		bi, _ := new(big.Int).SetString(v.ExactString(), 10)
		if _, isF := isFloat(t); isF {
			f, _ := constant.Float64Val(v)
			return TV{x.floatLit(f, t), t}
		}
		return TV{x.bigC(bi, t), t}
	case constant.Float:
		f, _ := constant.Float64Val(v)
		return TV{x.floatLit(f, t), t}
	}
	panic("contract: unsupported constant")
}

func isNilTV(a TV) bool {
	b, ok := a.T.(*types.Basic)
	return ok && b.Kind() == types.UntypedNil
}

func isUntypedInt(t types.Type) bool {
	b, ok := t.(*types.Basic)
	return ok && (b.Kind() == types.UntypedInt || b.Kind() == types.UntypedRune)
}

// coerce untyped int literal to the other operand's integer/float type
func (e *Env) coerce(a, b TV) (TV, TV) {
	x := e.x
	fix := func(lit TV, other TV) TV {
		if !isUntypedInt(lit.T) {
			return lit
		}
		lt := asTerm(lit.V)
		var val *big.Int
		if v, ok := intVal(lt); ok {
			val = v
		} else if v, w, ok := bvVal(lt); ok {
			val = toSigned(v, w)
		} else {
			return lit
		}
		if _, _, ok := intInfo(other.T); ok {
			return TV{x.bigC(val, other.T), other.T}
		}
		if _, ok := isFloat(other.T); ok {
			f, _ := new(big.Float).SetInt(val).Float64()
			return TV{x.floatLit(f, other.T), other.T}
		}
		return lit
	}
	return fix(a, b), fix(b, a)
}

func (e *Env) evalBinary(n *ast.BinaryExpr) TV {
	x := e.x
	tt := x.tt
	switch n.Op {
	case token.LAND:
		a := e.eval(n.X)
		at := asTerm(a.V)
		if isFalse(at) {
			return TV{at, tBool}
		}
		b := e.eval(n.Y)
		return TV{tt.And(at, asTerm(b.V)), tBool}
	case token.LOR:
		a := e.eval(n.X)
		at := asTerm(a.V)
		if isTrue(at) {
			return TV{at, tBool}
		}
		b := e.eval(n.Y)
		return TV{tt.Or(at, asTerm(b.V)), tBool}
	}
	a, b := e.eval(n.X), e.eval(n.Y)
	a, b = e.coerce(a, b)
	// nil comparisons
	if isNilTV(b) || isNilTV(a) {
		other := a
		if isNilTV(a) {
			other = b
		}
		var isnil *Term
		if isNilTV(a) && isNilTV(b) {
			isnil = tt.True()
		} else {
			ot := asTerm(other.V)
			switch ot.Sort {
			case "Val":
				isnil = tt.Is("vnil", ot)
			case "Slice":
				isnil = tt.Eq(x.sArr(ot), tt.IntLit(0))
			default:
				isnil = tt.Eq(ot, tt.IntLit(0))
			}
		}
		switch n.Op {
		case token.EQL:
			return TV{isnil, tBool}
		case token.NEQ:
			return TV{tt.Not(isnil), tBool}
		}
		panic("contract: bad nil comparison")
	}
	rt := a.T
	switch n.Op {
	case token.EQL, token.NEQ, token.LSS, token.LEQ, token.GTR, token.GEQ:
		rt = tBool
	}
	r := x.binop(e.fr, e.st, n.Op, a.V, b.V, a.T, b.T, rt)
	return TV{r, rt}
}

func (e *Env) selectField(base TV, name string) TV {
	x := e.x
	t := base.T
	// auto-deref pointer
	if p, ok := t.Underlying().(*types.Pointer); ok {
		st, ok := p.Elem().Underlying().(*types.Struct)
		if !ok {
			panic("contract: selector on pointer to non-struct " + t.String())
		}
		path, ft := fieldPath(p.Elem(), st, name)
		if path == nil {
			panic(fmt.Sprintf("contract: no field %s in %s", name, t))
		}
		addr := asTerm(base.V)
		cur := p.Elem()
		for _, i := range path {
			addr = x.fieldAddr(addr, cur, i)
			cs, _ := structOf(cur)
			cur = cs.Field(i).Type()
		}
		return TV{x.load(e.st, addr, ft), ft}
	}
	if st, ok := t.Underlying().(*types.Struct); ok {
		path, ft := fieldPath(t, st, name)
		if path == nil {
			panic(fmt.Sprintf("contract: no field %s in %s", name, t))
		}
		v := base.V
		for _, i := range path {
			v = v.(*Agg).Elems[i]
		}
		return TV{v, ft}
	}
	panic(fmt.Sprintf("contract: selector .%s on %s", name, t))
}

// fieldPath finds a (possibly promoted) field.
func fieldPath(T types.Type, st *types.Struct, name string) ([]int, types.Type) {
	for i := 0; i < st.NumFields(); i++ {
		if st.Field(i).Name() == name {
			return []int{i}, st.Field(i).Type()
		}
	}
	for i := 0; i < st.NumFields(); i++ {
		f := st.Field(i)
		if f.Embedded() {
			if es, ok := f.Type().Underlying().(*types.Struct); ok {
				if p, ft := fieldPath(f.Type(), es, name); p != nil {
					return append([]int{i}, p...), ft
				}
			}
		}
	}
	return nil, nil
}

func (e *Env) index(base, idx TV) TV {
	x := e.x
	tt := x.tt
	switch u := base.T.Underlying().(type) {
	case *types.Slice:
		s := asTerm(base.V)
		i := asTerm(idx.V)
		if x.isAggType(u.Elem()) {
			return TV{x.load(e.st, x.elemAddr(x.sArr(s), i), u.Elem()), u.Elem()}
		}
		name := "A$" + typeName(u.Elem())
		srt := arraySort("Int", arraySort("Int", x.sortOf(u.Elem())))
		h := x.heap(e.st, name, srt)
		v := tt.Select(tt.Select(h, x.sArr(s)), x.toMathInt(i))
		return TV{v, u.Elem()}
	case *types.Map:
		v, _ := x.mapGet(e.st, asTerm(base.V), u, idx.V)
		return TV{v, u.Elem()}
	case *types.Array:
		ag := base.V.(*Agg)
		if k, ok := x.litInt(asTerm(idx.V)); ok {
			return TV{ag.Elems[k], u.Elem()}
		}
		var r Value = ag.Elems[len(ag.Elems)-1]
		for k := len(ag.Elems) - 2; k >= 0; k-- {
			r = x.iteVal(tt.Eq(asTerm(idx.V), x.GoInt(int64(k))), ag.Elems[k], r)
		}
		return TV{r, u.Elem()}
	}
	panic("contract: index on " + base.T.String())
}

func (e *Env) evalCall(n *ast.CallExpr) TV {
	x := e.x
	tt := x.tt
	fname := ""
	switch f := n.Fun.(type) {
	case *ast.Ident:
		fname = f.Name
	case *ast.SelectorExpr:
		fname = exprStr(f)
	}
	arg := func(i int) TV { return e.eval(n.Args[i]) }
	boolArg := func(i int) *Term { return asTerm(arg(i).V) }
	switch fname {
	case "old":
		return e.with(e.old).eval(n.Args[0])
	case "implies":
		a := boolArg(0)
		if isFalse(a) {
			return TV{tt.True(), tBool}
		}
		return TV{tt.Implies(a, boolArg(1)), tBool}
	case "iff":
		return TV{tt.Eq(boolArg(0), boolArg(1)), tBool}
	case "ite":
		c := boolArg(0)
		a, b := arg(1), arg(2)
		a, b = e.coerce(a, b)
		return TV{x.iteVal(c, a.V, b.V), a.T}
	case "len":
		a := arg(0)
		switch u := a.T.Underlying().(type) {
		case *types.Slice:
			return TV{x.sLen(asTerm(a.V)), tInt}
		case *types.Basic:
			return TV{x.strLen(asTerm(a.V)), tInt}
		case *types.Map:
			return TV{x.mapLen(e.st, asTerm(a.V), u), tInt}
		case *types.Array:
			return TV{x.GoInt(u.Len()), tInt}
		}
		panic("contract: len of " + a.T.String())
	case "cap":
		return TV{x.sCap(asTerm(arg(0).V)), tInt}
	case "arr":
		// backing array identity of a slice
		return TV{x.sArr(asTerm(arg(0).V)), types.Typ[types.UnsafePointer]}
	case "forall", "exists":
		// forall(i, lo, hi, body)
		id := n.Args[0].(*ast.Ident).Name
		lo, hi := arg(1), arg(2)
		lo, _ = e.coerce(lo, TV{x.GoInt(0), tInt})
		hi, _ = e.coerce(hi, TV{x.GoInt(0), tInt})
		// literal small ranges are expanded (no quantifier)
		if lv, ok1 := x.litInt(asTerm(lo.V)); ok1 {
			if hv, ok2 := x.litInt(asTerm(hi.V)); ok2 && hv-lv <= 8 {
				var parts []*Term
				for k := lv; k < hv; k++ {
					parts = append(parts, asTerm(e.bind(id, x.GoInt(k), tInt).eval(n.Args[3]).V))
				}
				if fname == "forall" {
					return TV{tt.And(parts...), tBool}
				}
				return TV{tt.Or(parts...), tBool}
			}
		}
		bsort := "Int"
		bv := tt.Bound(id, bsort)
		var iv *Term = bv
		loT, hiT := x.toMathInt(asTerm(lo.V)), x.toMathInt(asTerm(hi.V))
		if x.bv {
			iv = tt.App("(_ int2bv 64)", bvSort(64), bv)
		}
		body := asTerm(e.bind(id, iv, tInt).eval(n.Args[3]).V)
		rng := tt.And(tt.Le(loT, bv), tt.Lt(bv, hiT))
		if fname == "forall" {
			return TV{tt.Forall([]*Term{bv}, tt.Implies(rng, body)), tBool}
		}
		return TV{tt.Exists([]*Term{bv}, tt.And(rng, body)), tBool}
	case "forallkey", "existskey":
		// forallkey(k, m, body): for all keys k in dom(m)
		id := n.Args[0].(*ast.Ident).Name
		m := arg(1)
		mt := m.T.Underlying().(*types.Map)
		bv := tt.Bound(id, x.keySort(mt))
		dom := x.mapDom(e.st, asTerm(m.V), mt)
		body := asTerm(e.bind(id, bv, mt.Key()).eval(n.Args[2]).V)
		if fname == "forallkey" {
			return TV{tt.Forall([]*Term{bv}, tt.Implies(tt.Select(dom, bv), body)), tBool}
		}
		return TV{tt.Exists([]*Term{bv}, tt.And(tt.Select(dom, bv), body)), tBool}
	case "has":
		m := arg(0)
		mt := m.T.Underlying().(*types.Map)
		k := arg(1)
		return TV{tt.Select(x.mapDom(e.st, asTerm(m.V), mt), x.keyTerm(mt, k.V)), tBool}
	case "fresh":
		p := asTerm(arg(0).V)
		if p.Sort == "Slice" {
			p = x.sArr(p)
		}
		return TV{tt.Ge(tt.UF("birth$", "Int", p), e.old.clk), tBool}
	case "loopfresh":
		// allocated since the enclosing loop was entered (only meaningful in loop invariants)
		p := asTerm(arg(0).V)
		if p.Sort == "Slice" {
			p = x.sArr(p)
		}
		c := x.curLoopClk
		if c == nil {
			c = e.old.clk
		}
		return TV{tt.Ge(tt.UF("birth$", "Int", p), c), tBool}
	case "existed":
		p := asTerm(arg(0).V)
		if p.Sort == "Slice" {
			p = x.sArr(p)
		}
		return TV{tt.Lt(tt.UF("birth$", "Int", p), e.old.clk), tBool}
	case "owned":
		p := asTerm(arg(0).V)
		h := x.heap(e.st, "G$owned", arraySort("Int", "Bool"))
		return TV{tt.Select(h, p), tBool}
	case "visited":
		// visited(loopOrdinal, key): key has been yielded by the map iteration of that loop
		ord, _ := x.litInt(asTerm(arg(0).V))
		k := arg(1)
		ks := asTerm(k.V).Sort
		name := fmt.Sprintf("I$visited%d$%s", ord, ks)
		h := x.heap(e.st, name, arraySort("Int", arraySort(ks, "Bool")))
		return TV{tt.Select(tt.Select(h, tt.IntLit(0)), asTerm(k.V)), tBool}
	case "equalFold":
		a, b := asTerm(arg(0).V), asTerm(arg(1).V)
		if a.id > b.id {
			a, b = b, a
		}
		return TV{tt.UF("equalFold$", "Bool", a, b), tBool}
	case "runes":
		st := asTerm(arg(0).V)
		n := tt.UF("runeCount$", "Int", st)
		if x.bv {
			return TV{tt.App("(_ int2bv 64)", bvSort(64), n), tInt}
		}
		return TV{n, tInt}
	case "deepEq":
		return TV{x.deepEqual(e.st, asTerm(arg(0).V), asTerm(arg(1).V)), tBool}
	case "elemAt":
		// elemAt(v, i): i-th element (boxed) of a slice-kind dynamic value
		return TV{x.reflIndex(e.st, asTerm(arg(0).V), asTerm(arg(1).V)), tAny}
	case "lenOf":
		return TV{x.reflLen(asTerm(arg(0).V)), tInt}
	case "isJSON":
		a := arg(0)
		av := asTerm(a.V)
		if av.Sort != "Val" {
			// a statically typed value (e.g. map[string]interface{}): the JSON-ness of the value it boxes to
			av = x.makeIface(e.st, a.V, a.T)
		}
		return TV{x.isJSON(av), tBool}
	case "pooltag":
		return TV{tt.UF("pooltag$", "Int", asTerm(arg(0).V)), tInt}
	case "tidof":
		tn, _ := strconv.Unquote(n.Args[0].(*ast.BasicLit).Value)
		return TV{x.tidLit(x.lookupType(tn)), tInt}
	case "tagof":
		return TV{x.tagOf(asTerm(arg(0).V)), tInt}
	case "forallp":
		id := n.Args[0].(*ast.Ident).Name
		bv := tt.Bound(id, "Int")
		body := asTerm(e.bind(id, bv, types.Typ[types.UnsafePointer]).eval(n.Args[1]).V)
		return TV{tt.Forall([]*Term{bv}, body), tBool}
	case "owner":
		p := asTerm(arg(0).V)
		if p.Sort == "Slice" {
			p = x.sArr(p)
		}
		return TV{x.ownerOf(e.st, p), types.Typ[types.UnsafePointer]}
	case "fromPool":
		// the object was sitting in a pool, or did not exist, in the pre-state: it cannot alias anything live there
		p := asTerm(arg(0).V)
		return TV{x.poolOrFresh(e.old, p), tBool}
	case "desc":
		return TV{x.descT(asTerm(arg(0).V), asTerm(arg(1).V)), tBool}
	case "ready":
		p := asTerm(arg(0).V)
		return TV{tt.Select(x.heap(e.st, "G$ready", arraySort("Int", "Bool")), p), tBool}
	case "redeemed":
		p := asTerm(arg(0).V)
		h := x.heap(e.st, "G$redeemed", arraySort("Int", "Bool"))
		return TV{tt.Select(h, p), tBool}
	case "isnil":
		a := asTerm(arg(0).V)
		if a.Sort == "Val" {
			return TV{tt.Is("vnil", a), tBool}
		}
		if a.Sort == "Slice" {
			return TV{tt.Eq(x.sArr(a), tt.IntLit(0)), tBool}
		}
		return TV{tt.Eq(a, tt.IntLit(0)), tBool}
	case "kind":
		a := asTerm(arg(0).V)
		return TV{x.kindOfVal(a), types.Typ[types.Uint]}
	case "typeis":
		a := asTerm(arg(0).V)
		tn, _ := strconv.Unquote(n.Args[1].(*ast.BasicLit).Value)
		T := x.lookupType(tn)
		return TV{tt.Eq(x.tagOf(a), x.tidLit(T)), tBool}
	case "unbox":
		a := asTerm(arg(0).V)
		tn, _ := strconv.Unquote(n.Args[1].(*ast.BasicLit).Value)
		T := x.lookupType(tn)
		return TV{x.unbox(e.st, a, T), T}
	case "box":
		a := arg(0)
		return TV{x.makeIface(e.st, a.V, a.T), tAny}
	case "msg":
		a := asTerm(arg(0).V)
		return TV{x.errMsg(a), tString}
	case "int64of":
		return TV{tt.Sel("v-i", "vint", x.intSort(64), asTerm(arg(0).V)), tInt64}
	case "uint64of":
		return TV{tt.Sel("v-u", "vuint", x.intSort(64), asTerm(arg(0).V)), tUint64}
	case "float64of":
		return TV{tt.Sel("v-f", "vf64", sF64, asTerm(arg(0).V)), tFloat64}
	case "float32of":
		return TV{tt.Sel("v-g", "vf32", sF32, asTerm(arg(0).V)), types.Typ[types.Float32]}
	case "strof":
		return TV{tt.Sel("v-s", "vstr", x.SS(), asTerm(arg(0).V)), tString}
	case "boolof":
		return TV{tt.Sel("v-b", "vbool", "Bool", asTerm(arg(0).V)), tBool}
	case "membersKept", "noNewMembers":
		// membersKept("map[K]V"): every member that a map of this type had in the pre-state is still there with the
		// same value; noNewMembers("map[K]V"): every member a map has now was there in the pre-state with the same value
		tn, _ := strconv.Unquote(n.Args[0].(*ast.BasicLit).Value)
		dn, vn := "D$"+tn, "V$"+tn
		ds, okd := x.heapSorts[dn]
		vs, okv := x.heapSorts[vn]
		if !okd {
			return TV{tt.True(), tBool}
		}
		_, dinner := splitArraySort(ds)
		ks, _ := splitArraySort(dinner)
		m, k := tt.Bound("m", "Int"), tt.Bound("k", ks)
		dOld, dNew := tt.Select(tt.Select(x.heap(e.old, dn, ds), m), k), tt.Select(tt.Select(x.heap(e.st, dn, ds), m), k)
		same := tt.True()
		if okv {
			same = tt.Eq(tt.Select(tt.Select(x.heap(e.st, vn, vs), m), k), tt.Select(tt.Select(x.heap(e.old, vn, vs), m), k))
		}
		if fname == "membersKept" {
			return TV{tt.Forall([]*Term{m, k}, tt.Implies(dOld, tt.And(dNew, same))), tBool}
		}
		return TV{tt.Forall([]*Term{m, k}, tt.Implies(dNew, tt.And(dOld, same))), tBool}
	case "unchanged":
		// unchanged(lvalue): every cell designated by the modifies-style lvalue (evaluated in the pre-state) holds
		// the same value in the current state as in the pre-state
		oe := e.with(e.old)
		var cs []*Term
		for _, t := range oe.lvalueTargets(n.Args[0]) {
			if t.whole {
				panic("unchanged() over a whole heap")
			}
			srt := x.heapSorts[t.heap]
			if srt == "" {
				srt = t.sort
			}
			cs = append(cs, tt.Eq(tt.Select(x.heap(e.st, t.heap, srt), t.idx), tt.Select(x.heap(e.old, t.heap, srt), t.idx)))
		}
		return TV{tt.And(cs...), tBool}
	case "ptrof":
		av := asTerm(arg(0).V)
		pv := tt.Sel("v-p", "vptr", "Int", av)
		if o, ok := x.valOrigin[av.id]; ok && !pv.hasBound {
			// a validator held in a slot of interface type: the forest facts of a stored child
			x.noteChildLoad(o, pv)
		}
		if !pv.hasBound && len(x.prog.Cons.ValidatorTypes) > 0 {
			// whatever the dynamic type of the boxed pointer is, the object it points to has that kind
			var names []string
			for tn := range x.prog.Cons.ValidatorTypes {
				names = append(names, tn)
			}
			names = append(names, "Result")
			sort.Strings(names)
			for _, tn := range names {
				T := x.lookupType(tn)
				if T == nil {
					continue
				}
				PT := types.NewPointer(T)
				x.addFactRaw(tt.Implies(tt.Eq(x.tagOf(av), x.tidLit(PT)), x.objKindFact(pv, PT)))
			}
		}
		return TV{pv, types.Typ[types.UnsafePointer]}
	case "isInt", "isUint", "isF64", "isF32", "isStr", "isBool", "isPtr", "isSliceV":
		c := map[string]string{"isInt": "vint", "isUint": "vuint", "isF64": "vf64", "isF32": "vf32", "isStr": "vstr", "isBool": "vbool", "isPtr": "vptr", "isSliceV": "vslice"}[fname]
		return TV{tt.Is(c, asTerm(arg(0).V)), tBool}
	case "int64", "uint64", "float64", "float32", "int", "int32", "uint32", "string":
		a := arg(0)
		T := map[string]types.Type{"int64": tInt64, "uint64": tUint64, "float64": tFloat64, "float32": types.Typ[types.Float32], "int": tInt, "int32": types.Typ[types.Int32], "uint32": types.Typ[types.Uint32], "string": tString}[fname]
		if isUntypedInt(a.T) {
			a2, _ := e.coerce(a, TV{nil, T})
			return TV{a2.V, T}
		}
		return TV{x.convert(e.fr, e.st, a.V, a.T, T), T}
	case "isNaN":
		return TV{tt.App("fp.isNaN", "Bool", asTerm(arg(0).V)), tBool}
	case "isInf":
		return TV{tt.App("fp.isInfinite", "Bool", asTerm(arg(0).V)), tBool}
	case "feq": // IEEE equality that is also bit-identity for non-NaN non-zero: use smt '='
		return TV{tt.Eq(asTerm(arg(0).V), asTerm(arg(1).V)), tBool}
	case "truncF": // float64 rounded toward zero to an integral float64
		a := asTerm(arg(0).V)
		return TV{tt.App("fp.roundToIntegral", a.Sort, tt.Lit("RTZ", "RoundingMode"), a), arg(0).T}
	case "held":
		p := asTerm(arg(0).V)
		h := x.heap(e.st, "G$held", arraySort("Int", "Bool"))
		return TV{tt.Select(h, p), tBool}
	case "published":
		p := asTerm(arg(0).V)
		h := x.heap(e.st, "G$published", arraySort("Int", "Bool"))
		return TV{tt.Select(h, p), tBool}
	case "prefixof":
		return TV{x.strOp("str.prefixof", "Bool", asTerm(arg(0).V), asTerm(arg(1).V)), tBool}
	case "suffixof":
		return TV{x.strOp("str.suffixof", "Bool", asTerm(arg(0).V), asTerm(arg(1).V)), tBool}
	case "contains":
		return TV{x.strOp("str.contains", "Bool", asTerm(arg(0).V), asTerm(arg(1).V)), tBool}
	case "sameheap":
		// sameheap("H$Result$Errors"): heap unchanged since pre-state
		hn, _ := strconv.Unquote(n.Args[0].(*ast.BasicLit).Value)
		srt := x.heapSorts[hn]
		if srt == "" {
			return TV{tt.True(), tBool}
		}
		return TV{tt.Eq(x.heap(e.st, hn, srt), x.heap(e.old, hn, srt)), tBool}
	}
	// spec predicates / uninterpreted functions
	if p, ok := x.prog.Cons.Preds[fname]; ok {
		if len(n.Args) != len(p.Params) {
			panic(fmt.Sprintf("contract: %s expects %d arguments", fname, len(p.Params)))
		}
		if p.UF {
			var args []*Term
			for i := range n.Args {
				a := arg(i)
				if isUntypedInt(a.T) {
					a, _ = e.coerce(a, TV{nil, tInt})
				}
				args = append(args, asTerm(a.V))
			}
			rt := x.lookupType(p.Ret)
			return TV{tt.UF("spec$"+fname, x.sortOf(rt), args...), rt}
		}
		if p.Foldable {
			a := arg(0)
			at := asTerm(a.V)
			flag := tt.Select(x.heap(e.st, "G$ready", arraySort("Int", "Bool")), at)
			if e.foldMode == 0 || e.depth > 0 {
				return TV{flag, tBool}
			}
			// fold / unfold: one level of the body, evaluated in the same state; nested foldables are flags
			ne := &Env{x: x, st: e.st, old: e.old, vars: map[string]Value{p.Params[0]: a.V}, vtypes: map[string]types.Type{p.Params[0]: x.lookupType(p.PTypes[0])}, fr: e.fr, depth: e.depth + 1, foldMode: e.foldMode}
			body := asTerm(ne.eval(p.Body).V)
			if e.foldMode == 1 {
				// proving: establishing the flag means proving the body
				return TV{body, tBool}
			}
			// assuming at entry: the flag, and what it stands for
			return TV{tt.And(flag, body), tBool}
		}
		if p.Opaque && !x.revealed(fname) {
			// uninterpreted over snapshots of the argument values (slices: backing-array content and length)
			var ts []*Term
			for i := range n.Args {
				a := arg(i)
				at, ok := a.V.(*Term)
				if !ok {
					panic("contract: opaque predicate " + fname + " needs scalar or slice arguments")
				}
				if sl, isS := a.T.Underlying().(*types.Slice); isS && !x.isAggType(sl.Elem()) {
					name := "A$" + typeName(sl.Elem())
					srt := arraySort("Int", arraySort("Int", x.sortOf(sl.Elem())))
					h := x.heap(e.st, name, srt)
					ts = append(ts, tt.Select(h, x.sArr(at)), x.toMathInt(x.sLen(at)))
				} else {
					ts = append(ts, at)
				}
			}
			r := tt.UF("op$"+fname, "Bool", ts...)
			// lemmas: sufficient conditions, proved in the functions that reveal the predicate
			for _, lm := range x.prog.Cons.Lemmas[fname] {
				ne := &Env{x: x, st: e.st, old: e.old, vars: map[string]Value{}, vtypes: map[string]types.Type{}, fr: e.fr, depth: e.depth + 1}
				for i, pn := range p.Params {
					a := arg(i)
					ne.vars[pn] = a.V
					ne.vtypes[pn] = a.T
				}
				r = tt.Or(asTerm(ne.eval(lm.Expr).V), r)
			}
			return TV{r, tBool}
		}

		ne := &Env{x: x, st: e.st, old: e.old, vars: map[string]Value{}, vtypes: map[string]types.Type{}, fr: e.fr, depth: e.depth, foldMode: e.foldMode}
		if e.depth > 60 {
			panic("contract: predicate expansion too deep " + fname)
		}
		for i, pn := range p.Params {
			a := arg(i)
			if p.PTypes[i] != "" {
				want := x.lookupType(p.PTypes[i])
				if isUntypedInt(a.T) {
					a, _ = e.coerce(a, TV{nil, want})
				}
				if isNilTV(a) {
					a = TV{x.zero(want), want}
				}
				a.T = want
			}
			ne.vars[pn] = a.V
			ne.vtypes[pn] = a.T
		}
		return ne.eval(p.Body)
	}
	if sp, ok := specFuncs[fname]; ok {
		var args []TV
		for i := range n.Args {
			args = append(args, arg(i))
		}
		return sp(e, args)
	}
	panic("contract: unknown function " + fname)
}

// lookupType resolves a type name used in contracts: basic names, T, *T, pkg.T, []T, interface{}.
func (x *Exec) lookupType(name string) types.Type {
	name = strings.TrimSpace(name)
	switch name {
	case "bool":
		return tBool
	case "int":
		return tInt
	case "int64":
		return tInt64
	case "uint64":
		return tUint64
	case "float64":
		return tFloat64
	case "string":
		return tString
	case "any", "interface{}":
		return tAny
	case "error":
		return types.Universe.Lookup("error").Type()
	}
	if strings.HasPrefix(name, "*") {
		return types.NewPointer(x.lookupType(name[1:]))
	}
	if strings.HasPrefix(name, "[]") {
		return types.NewSlice(x.lookupType(name[2:]))
	}
	if strings.HasPrefix(name, "map[") {
		depth := 0
		for i := 3; i < len(name); i++ {
			switch name[i] {
			case '[':
				depth++
			case ']':
				depth--
				if depth == 0 {
					return types.NewMap(x.lookupType(name[4:i]), x.lookupType(name[i+1:]))
				}
			}
		}
	}
	if b := types.Universe.Lookup(name); b != nil {
		return b.Type()
	}
	if i := strings.LastIndex(name, "."); i >= 0 {
		pn, tn := name[:i], name[i+1:]
		for _, p := range x.prog.SSA.AllPackages() {
			if p.Pkg.Name() == pn || p.Pkg.Path() == pn {
				if o := p.Pkg.Scope().Lookup(tn); o != nil {
					return o.Type()
				}
			}
		}
		panic("contract: unknown type " + name)
	}
	if o := x.prog.Main.Pkg.Scope().Lookup(name); o != nil {
		return o.Type()
	}
	panic("contract: unknown type " + name)
}

// ---- modifies targets

type modTarget struct {
	heap  string
	sort  string
	idx   *Term
	whole bool
}

func (e *Env) lvalueTargets(ex interface{}) []modTarget {
	x := e.x
	switch n := ex.(type) {
	case *ast.ParenExpr:
		return e.lvalueTargets(n.X)
	case *ast.SelectorExpr:
		base := e.eval(n.X)
		p, ok := base.T.Underlying().(*types.Pointer)
		if !ok {
			panic("modifies: selector base must be a pointer: " + exprStr(n))
		}
		st, _ := structOf(p.Elem())
		path, ft := fieldPath(p.Elem(), st, n.Sel.Name)
		if path == nil {
			panic("modifies: no field " + n.Sel.Name)
		}
		addr := asTerm(base.V)
		cur := p.Elem()
		for _, i := range path {
			addr = x.fieldAddr(addr, cur, i)
			cs, _ := structOf(cur)
			cur = cs.Field(i).Type()
		}
		return e.cellTargets(addr, ft)
	case *ast.CallExpr:
		fn := exprStr(n.Fun)
		switch fn {
		case "when":
			// when(cond, lvalue): the location may change only if cond holds (evaluated in the pre-state).
			// Encoded by redirecting the index to the impossible address -1 when cond is false.
			c := asTerm(e.eval(n.Args[0]).V)
			inner := e.lvalueTargets(n.Args[1])
			for i := range inner {
				if inner[i].whole {
					panic("modifies: when() over a whole heap")
				}
				inner[i].idx = x.tt.Ite(c, inner[i].idx, x.tt.IntLit(-1))
			}
			return inner
		case "all":
			base := e.eval(n.Args[0])
			p := base.T.Underlying().(*types.Pointer)
			return e.cellTargets(asTerm(base.V), p.Elem())
		case "elems":
			s := e.eval(n.Args[0])
			et := s.T.Underlying().(*types.Slice).Elem()
			if x.isAggType(et) {
				panic("modifies elems() of struct slice not supported")
			}
			name := "A$" + typeName(et)
			return []modTarget{{heap: name, sort: arraySort("Int", arraySort("Int", x.sortOf(et))), idx: x.sArr(asTerm(s.V))}}
		case "mapof":
			m := e.eval(n.Args[0])
			mt := m.T.Underlying().(*types.Map)
			dn, ds := x.mapDomHeap(mt)
			out := []modTarget{{heap: dn, sort: ds, idx: asTerm(m.V)}}
			if !x.isAggType(mt.Elem()) {
				vn, vs := x.mapValHeap(mt)
				out = append(out, modTarget{heap: vn, sort: vs, idx: asTerm(m.V)})
			}
			return out
		case "owned":
			p := e.eval(n.Args[0])
			return []modTarget{{heap: "G$owned", sort: arraySort("Int", "Bool"), idx: asTerm(p.V)}}
		case "redeemed":
			p := e.eval(n.Args[0])
			return []modTarget{{heap: "G$redeemed", sort: arraySort("Int", "Bool"), idx: asTerm(p.V)}}
		case "held":
			p := e.eval(n.Args[0])
			return []modTarget{{heap: "G$held", sort: arraySort("Int", "Bool"), idx: asTerm(p.V)}}
		case "owner":
			p := asTerm(e.eval(n.Args[0]).V)
			if p.Sort == "Slice" {
				p = x.sArr(p)
			}
			return []modTarget{{heap: "G$owner", sort: arraySort("Int", "Int"), idx: p}}
		case "ghost":
			hn, _ := strconv.Unquote(n.Args[0].(*ast.BasicLit).Value)
			return []modTarget{{heap: hn, whole: true}}
		case "heap":
			hn, _ := strconv.Unquote(n.Args[0].(*ast.BasicLit).Value)
			return []modTarget{{heap: hn, whole: true}}
		case "deref":
			p := e.eval(n.Args[0])
			pt := p.T.Underlying().(*types.Pointer)
			return e.cellTargets(asTerm(p.V), pt.Elem())
		}
	}
	panic(fmt.Sprintf("modifies: unsupported target %v", ex))
}

func (e *Env) cellTargets(addr *Term, T types.Type) []modTarget {
	x := e.x
	if x.isAggType(T) {
		var out []modTarget
		switch u := T.Underlying().(type) {
		case *types.Struct:
			for i := 0; i < u.NumFields(); i++ {
				out = append(out, e.cellTargets(x.fieldAddr(addr, T, i), u.Field(i).Type())...)
			}
		case *types.Array:
			for i := int64(0); i < u.Len(); i++ {
				out = append(out, e.cellTargets(x.elemAddr(addr, x.tt.IntLit(i)), u.Elem())...)
			}
		}
		return out
	}
	srt := x.sortOf(T)
	switch shapeOf(addr) {
	case shField:
		return []modTarget{{heap: "H$" + addr.Op[3:], sort: arraySort("Int", srt), idx: addr.Args[0]}}
	case shElem:
		return []modTarget{{heap: "A$" + typeName(T), sort: arraySort("Int", arraySort("Int", srt)), idx: addr.Args[0]}}
	}
	return []modTarget{{heap: "M$" + typeName(T), sort: arraySort("Int", srt), idx: addr}}
}

// checkFrame: every heap differs from its entry version only at the declared targets (and at fresh objects).
func (x *Exec) checkFrame(fr *Frame, st *State) {
	tt := x.tt
	con := fr.con
	env := x.contractEnv(fr, fr.entry, fr.entry, nil)
	allowed := map[string][]*Term{}
	wholeOK := map[string]bool{}
	for _, m := range con.Modifies {
		for _, t := range env.lvalueTargets(m) {
			if t.whole {
				wholeOK[t.heap] = true
			} else {
				allowed[t.heap] = append(allowed[t.heap], t.idx)
			}
		}
	}
	for _, name := range x.allHeapNames(st) {
		if strings.HasPrefix(name, "L$") || strings.HasPrefix(name, "I$") || wholeOK[name] || x.isUnframedHeap(name) {
			continue
		}
		if con.Recycled && !(strings.HasPrefix(name, "H$") || strings.HasPrefix(name, "G$")) {
			// maps and backing arrays owned by a pooled object are treated as part of that object
			continue
		}
		cur, ok := st.heaps[name]
		if !ok {
			continue
		}
		srt := x.heapSorts[name]
		old := tt.Sym(name+"@0", srt)
		if cur == old {
			continue
		}
		is, _ := splitArraySort(srt)
		if is != "Int" {
			continue
		}
		p := tt.Bound("p", "Int")
		var exc []*Term
		for _, a := range allowed[name] {
			exc = append(exc, tt.Eq(p, a))
		}
		// objects that did not exist at entry may be written freely
		exc = append(exc, tt.Ge(tt.UF("birth$", "Int", p), fr.entry.clk))
		if con.Recycled {
			// objects sitting in a pool at entry are not visible to the caller either
			red := x.heap(fr.entry, "G$redeemed", arraySort("Int", "Bool"))
			exc = append(exc, tt.Select(red, p))
			// ... including structs embedded in them
			for _, fa := range x.embeddersOf(name) {
				base := tt.UF("inv$"+fa, "Int", p)
				exc = append(exc, tt.And(tt.Eq(p, tt.UF(fa, "Int", base)), tt.Select(red, base)))
			}
		}
		g := tt.Forall([]*Term{p}, tt.Or(append(exc, tt.Eq(tt.Select(cur, p), tt.Select(old, p)))...))
		x.oblige(fr, st, "frame", name, con.frameTags(), g, "only declared locations of "+name+" change")
	}
}

// checkPreserves: a `modifies *` function with `preserves T…` leaves every field of every T object that existed at
// entry as it was (objects allocated by the function itself may be written freely).
func (x *Exec) checkPreserves(fr *Frame, st *State) {
	tt := x.tt
	con := fr.con
	keep := preservesKeep(con)
	for _, name := range x.allHeapNames(st) {
		if !keep(name) {
			continue
		}
		cur, ok := st.heaps[name]
		if !ok {
			continue
		}
		srt := x.heapSorts[name]
		old := tt.Sym(name+"@0", srt)
		if cur == old {
			continue
		}
		if is, _ := splitArraySort(srt); is != "Int" {
			continue
		}
		p := tt.Bound("p", "Int")
		g := tt.Forall([]*Term{p}, tt.Or(tt.Ge(tt.UF("birth$", "Int", p), fr.entry.clk), tt.Eq(tt.Select(cur, p), tt.Select(old, p))))
		x.oblige(fr, st, "preserves", name, con.frameTags(), g, "fields of objects of a preserved type that existed at entry are unchanged: "+name)
	}
}

func (c *Contract) frameTags() []string {
	var out []string
	seen := map[string]bool{}
	for _, e := range c.Ensures {
		for _, t := range e.Tags {
			if !seen[t] {
				seen[t] = true
				out = append(out, t)
			}
		}
	}
	for _, e := range c.PanicEnsures {
		for _, t := range e.Tags {
			if !seen[t] {
				seen[t] = true
				out = append(out, t)
			}
		}
	}
	for _, t := range c.Sweep {
		if !seen[t] {
			seen[t] = true
			out = append(out, t)
		}
	}
	var o2 []string
	for _, t := range out {
		if t != "local" {
			o2 = append(o2, t)
		}
	}
	return o2
}

func (c *Contract) frameTagsPlus(extra []string) []string {
	out := append([]string{}, c.frameTags()...)
	for _, t := range extra {
		if !hasTag(out, t) {
			out = append(out, t)
		}
	}
	return out
}

// specFuncs: engine-defined specification functions.
var specFuncs = map[string]func(e *Env, args []TV) TV{}

// embeddersOf: for heap H$U$f, the field-address functions fa$T$g such that field g of struct T (package types) has struct type U.
func (x *Exec) embeddersOf(heap string) []string {
	if !strings.HasPrefix(heap, "H$") {
		return nil
	}
	parts := strings.SplitN(heap[2:], "$", 2)
	if len(parts) != 2 {
		return nil
	}
	U := parts[0]
	var out []string
	sc := x.prog.Main.Pkg.Scope()
	for _, n := range sc.Names() {
		tn, ok := sc.Lookup(n).(*types.TypeName)
		if !ok {
			continue
		}
		st, ok := tn.Type().Underlying().(*types.Struct)
		if !ok {
			continue
		}
		for i := 0; i < st.NumFields(); i++ {
			if _, isS := st.Field(i).Type().Underlying().(*types.Struct); isS && typeName(st.Field(i).Type()) == U {
				out = append(out, "fa$"+typeName(tn.Type())+"$"+st.Field(i).Name())
			}
		}
	}
	return out
}

func (x *Exec) revealed(name string) bool {
	if x.con == nil {
		return false
	}
	for _, r := range x.con.Reveal {
		if r == name || r == "*" {
			return true
		}
	}
	return false
}
