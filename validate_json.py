#!/usr/bin/env python3
# validates MANIFEST.json and evidence/*.json against the given schemas (uses the tooling venv's jsonschema)
import json,sys,glob
import jsonschema
ok=True
def v(f,s):
    global ok
    try:
        jsonschema.validate(json.load(open(f)),json.load(open(s)))
    except Exception as e:
        ok=False; print("INVALID",f,str(e)[:300])
v('/verif/MANIFEST.json','/root/.vp/MANIFEST.schema.json')
for f in sorted(glob.glob('/verif/evidence/*.json')): v(f,'/root/.vp/EVIDENCE.schema.json')
print("all valid" if ok else "FAILED")
