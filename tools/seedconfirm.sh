#!/bin/bash
# usage: seedconfirm.sh <seed-dir-name>   (e.g. C20-a)  - confirms a seeded change in a scratch worktree and writes meta.json
set -u
export GOFLAGS=-mod=mod GOPROXY=off GOSUMDB=off GOTOOLCHAIN=local
S=/verif/seeded/$1
W=/var/tmp/seedcf-$1
BASE=${SEED_BASE:-$(git -C /repo rev-list --max-parents=0 HEAD)}
git -C /repo worktree remove --force $W >/dev/null 2>&1
git -C /repo worktree add --detach $W $BASE >/dev/null 2>&1 || { echo "worktree failed"; exit 2; }
cd $W
demo=zz_seed_demo_test.go
demodir=.
if grep -q '^package post' $S/$demo; then demodir=post; fi
cp $S/$demo $demodir/$demo
# 1. demo on original: must pass
go test -vet=off -count=1 -timeout 300s -run 'TestSeedDemo$' ./$demodir > $W/orig.log 2>&1; orig=$?
# 2. apply change
git apply $S/patch.diff || { echo "patch does not apply"; exit 2; }
go build ./... > $W/build.log 2>&1; build=$?
go test -vet=off -count=1 -timeout 300s -run 'TestSeedDemo$' ./$demodir > $W/mut.log 2>&1; mut=$?
# 3. existing suite with the change (without the demo)
rm -f $demodir/$demo
go test -vet=off -count=1 -timeout 25m ./... > $W/suite.log 2>&1
fails=$(grep -E '^--- FAIL|^FAIL|^panic' $W/suite.log | grep -v 'ExampleSpec_second\|ExampleSpecValidator_Validate_url\|refRemote\|^FAIL$\|^FAIL\s*github.com/go-openapi/validate\s' | tr '\n' ';')
# a failing TestJSONSchemaSuite parent caused only by refRemote is tolerated
fails=$(echo "$fails" | sed 's/--- FAIL: TestJSONSchemaSuite ([0-9.]*s);//')
python3 - "$1" "$orig" "$build" "$mut" "$fails" <<PY
import json,sys,os
name,orig,build,mut,fails=sys.argv[1:6]
S='/verif/seeded/'+name
meta={}
if os.path.exists(S+'/meta.json'): meta=json.load(open(S+'/meta.json'))
meta.update({"seed":name,"property":name.split('-')[0],
 "confirmed":{"demo_on_original_passes":orig=="0","builds_with_change":build=="0","demo_with_change_fails":mut!="0","existing_suite_unexpected_failures":fails},
 "ran":["go test -run TestSeedDemo (original tree)","git apply patch.diff","go build ./...","go test -run TestSeedDemo (changed tree)","go test ./... (changed tree, demo removed)"]})
meta["ok"]= orig=="0" and build=="0" and mut!="0" and fails.strip()==""
json.dump(meta,open(S+'/meta.json','w'),indent=1)
print(name,"OK" if meta["ok"] else "NOT-CONFIRMED",meta["confirmed"])
PY
cd /
git -C /repo worktree remove --force $W >/dev/null 2>&1
