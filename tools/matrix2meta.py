#!/usr/bin/env python3
"""Reads the output of tools/seedmatrix_par.sh (files given as arguments) and records, in each seed's meta.json,
which checks were run against it and which of them reported a violation."""
import json, sys, collections, os
res = collections.defaultdict(dict)
for f in sys.argv[1:]:
    for l in open(f):
        p = l.split()
        if len(p) >= 3 and p[2] in ("CAUGHT", "missed"):
            res[p[0]][p[1]] = (p[2] == "CAUGHT", " ".join(p[3:])[:200])
for seed, r in sorted(res.items()):
    mp = f"/verif/seeded/{seed}/meta.json"
    if not os.path.exists(mp):
        continue
    m = json.load(open(mp))
    caught = sorted(k for k, v in r.items() if v[0])
    m["framework_result"] = "caught" if caught else "missed"
    m["caught_by_checks"] = caught
    m["checks_run"] = {k: ("VIOLATION reported: " + v[1] if v[0] else "no report") for k, v in sorted(r.items())}
    m["how_run"] = "tools/seedmatrix_par.sh (scratch worktree of /repo HEAD + patch.diff; VERIF_REPO/VERIF_DIR point the check at the scratch copies)"
    json.dump(m, open(mp, "w"), indent=1)
    print(seed, m["framework_result"], caught)
