#!/usr/bin/env python3
"""Regenerates /verif/MANIFEST.json from the tables below (run with any python3)."""
import json, subprocess

TECH = "contract-based deductive verification of the real code: weakest-precondition VCs generated from go/ssa of /repo, contracts in /repo/contracts_verif.go (build tag verif), every obligation discharged by z3 5.1 / z3 4.8 / cvc5"

CLAIMED = {
 "C04": ("proof", "Pool discipline of the schema-validation path as contracts: every constructor re-initialises every field of a borrowed validator (init-complete, two-copy non-interference), a borrowed Result is cleared, every write goes to a pool/fresh object, the receiver's own subtree or a declared location (write-ok, call-effects), nothing is used after it was redeemed (live), redeem happens exactly once (preconditions of the Redeem* functions). Proof-level for the functions under contract (pools, Result, leaf validators, SchemaValidator, schemaSliceValidator, objectValidator and schemaPropsValidator with their helpers, items/header/parameter validators, constructors, AgainstSchema); obligations that do not discharge on the unchanged tree (mainly the call sites of schemaPropsValidator.Validate, its constructor and redeemChildren) are listed in the evidence as unproven and are not claimed; spec validation (spec.go, default/example validators) is not covered.", "§11.3"),
 "C05": ("proof", "The ownership half of race freedom, for all schedules because it is per-call: a validation writes only objects it owns exclusively (borrowed from a sync.Pool or freshly allocated, or the subtree of the validator it was called on), never reads an object after redeeming it, and the regexp cache publishes only immutable maps built under the mutex (C15 contracts). Sharing of one long-lived validator between goroutines is covered by the C08 obligations (no write to self without recycling). Not covered: the package-level default options (D9, see DESIGN §11.5) and spec validation. The package-level defaults are declared `guarded defaultOpts by defaultOptsMutex`: every load and store of that variable carries the obligation that the mutex is held (SetContinueOnErrors, NewSpecValidator; this exposed and led to the repair of D9).", "§11.3"),
 "C06": ("proof", "No-panic sweep: for every function reachable from AgainstSchema / NewSchemaValidator / (*SchemaValidator).Validate the generator emits a safety obligation for each nil dereference, index, slice bound, type assertion, division, map write, reflect call and explicit panic; callers are checked against callee preconditions. Proof-level for the obligations that discharge; the rest are listed as unproven in the evidence and not claimed. Termination is not proved (partial correctness).", "§11.4"),
 "C07": ("proof", "No-panic sweep over the functions reachable from Spec / NewSpecValidator / (*SpecValidator).Validate, with the spec-validation code now under contract: specReady / defReady / exReady (document, analyzer, options and visited set are non-nil) are preconditions of every rule checker and proved at every call site, checkers promise mergeable results, expandResponseRef promises `response != nil or the result carries an error`, the visited-set contracts (resetVisited empties the set; a schema walk returns nil exactly for a nil schema or a visited/overlapping path) make the `red.wantsRedeemOnMerge` dereferences provable, and frames are `modifies * preserves SpecValidator, defaultValidator, exampleValidator` (one obligation per field heap). Calls into go-openapi/spec, analysis and loads go through assumed contracts and a stated frame rule (they do not write fields of this package's structs); two string-valued contracts (isVisited's overlap heuristic, responseMsgVariants) are trusted. Undischarged obligations (nil-ness inside library data) are listed as unproven, not claimed.", "§11.5, §11.10"),
 "C08": ("proof", "Statelessness of validators built without recycling as a postcondition: when Options.recycleValidators is false, Validate leaves every field of the receiver (and the elements of the child lists it owns) unchanged, and the effects discipline forbids writes to any other pre-existing object; results are fresh or borrowed. Functions under contract as for C04.", "§11.3"),
 "C10": ("proof", "Only the Result-level part of the property: validity is exactly the absence of errors (warnings never make a result invalid: IsValid), and merging as warnings moves every message to the warnings and leaves the errors untouched (MergeAsWarnings). Determinism across runs / map iteration order and monotonicity between the continue-on-errors modes are relational properties of spec.go and are not decided.", "§11.6b"),
 "C11": ("proof", "Panic edges are explicit in the VCs: deferred calls run on every panic path, with their preconditions (no double redeem: Redeem* require a live object) and the on_panic postcondition `redeemed(self) == recycle` checked there. Covers AgainstSchema, SchemaValidator, schemaSliceValidator, objectValidator, formatValidator, the items/header/parameter validators and the helpers of schemaPropsValidator; panics can only originate in callees declared maypanic (format checker, ExpandSchema).", "§11.3"),
 "C12": ("proof", "Read-only inputs for schema validation as a frame condition: every heap write of the functions under contract is checked (write-ok) to hit a pool/fresh object, the receiver's subtree or a declared location, so the instance (maps, slices, boxed values) and a caller's schema are never written; scratch schemas come from the schema pool. Spec validation (document and parsed spec unchanged) is not covered.", "§11.3"),
 "C13": ("proof", "Each numeric helper against an exact spec function over mathematical reals/integers, bit-precise conversions; the regions where the code disagrees with exact arithmetic are carved out as known findings (D4, D17) and replayed on the real code on every run.", "§6 C13"),
 "C14": ("proof", "Each exported value helper against its textbook definition (rune counts, deep equality, zero values, regexp search via the assumed regexp contract, registry semantics uninterpreted).", "§6 C14"),
 "C15": ("proof", "Cache invariant `every entry maps a pattern to the expression compiled from that very pattern` as data-structure invariant with rely/guarantee on the atomic.Value (published maps immutable), mutex held around copy-on-write.", "§6 C15"),
 "C17": ("proof", "The structural half: the one-shot entry point returns nil exactly when the underlying result has no errors (AgainstSchema), AsError likewise, a single-error result carries exactly that error (sErr), and errors are a duplicate-free set (AddErrors, under C20). Path composition (names of offending members) is string-valued and not decided: strings are uninterpreted in the encoding.", "§11.6b"),
 "C18": ("proof", "The frame half of the property as a postcondition of post.ApplyDefaults, for all results and data: every member that an object had before still has the same value afterwards (defaults are only written where the member was absent at the moment of the write). Which members receive which default depends on the schemata bookkeeping of the validators (unframed in the discipline, anyOf/oneOf selection not under contract) and is not decided.", "§11.6b"),
 "C19": ("proof", "The frame half of the property as postconditions of post.Prune / prune / pruneObject (recursive, modular): pruning never adds a member and never changes the value of a member that remains. Which members are removed depends on the schemata bookkeeping of the validators and is not decided; idempotence is not decided.", "§11.6b"),
 "C20": ("proof", "Result algebra: AddErrors/AddWarnings/Merge* against ordered-set spec functions (no duplicates, no loss, order, nil ignored, additive match counts, independence via array ownership), nil-tolerant queries.", "§6 C20"),
}

NA = {
 "C01": "not decided: agreement with draft-4 semantics needs a recursive spec function over (schema, instance) pairs and inductive contracts through every validator; only fragments are under functional contract (type/kind dispatch preconditions, enum/numeric/string helpers via C13/C14, the additionalItems bound repaired by fix 0d4df5d). A partial claim would not notice a wrong verdict in the unspecified parts, so none is made (DESIGN §11.6).",
 "C02": "not applicable to this technique here: the property quantifies over the official Swagger 2.0 schema document (embedded JSON) and the whole SchemaValidator recursion; it reduces to C01 for one fixed schema, which is not decided (DESIGN §11.6).",
 "C03": "not decided: the rule set lives in functions that traverse go-openapi/spec and analysis data structures through library calls for which only coarse assumed contracts exist; exact rule semantics would need contracts on those libraries (DESIGN §11.6). The no-panic part of this code is claimed under C07.",
 "C09": "not decided: needs the (unspecified) traversal semantics of default_validator.go / example_validator.go over spec structures plus C01 for the nested schema validation (DESIGN §11.6).",
 "C16": "not decided: the Param/Header/items validators are not under contract yet (only the leaf validators they chain are, for pool discipline and panics); a partial claim would not cover the chain order and nesting the property is about (DESIGN §11.6).",
}

def main():
    commits = subprocess.run(["git", "-C", "/repo", "log", "--format=%h %s"], capture_output=True, text=True).stdout.splitlines()
    hooks = [c.split()[0] for c in commits if " verif hook" in c or "verif: " in c]
    m = {
        "version": 1,
        "setup_cmd": "cd /verif/engine && GOFLAGS=-mod=vendor GOPROXY=off GOSUMDB=off GOTOOLCHAIN=local go build -o ../bin/govc .",
        "hooks": {
            "guard": "verif",
            "enable": "go build -tags verif (adds only the comment-only file contracts_verif.go; govc loads /repo with -tags=verif)",
            "baseline_off_cmd": "cd /repo && GOFLAGS=-mod=mod GOPROXY=off GOSUMDB=off GOTOOLCHAIN=local go test -vet=off -count=1 -timeout 25m ./...",
            "source_commits": hooks,
            "add_only": True,
        },
        "engines": [{
            "name": "govc", "path": "/verif/engine", "serves_properties": sorted(CLAIMED),
            "kind_free_text": "contract-based deductive verifier: VC generation over go/ssa of /repo, contracts in /repo/contracts_verif.go, obligations discharged by z3/cvc5",
        }],
        "checks": [],
        "not_applicable": [{"property_id": k, "reason": v} for k, v in sorted(NA.items())],
        "notes": "Unproven obligations (listed per property in /verif/sweep_claims.json and in each evidence file) are never counted as discharged; fixes and known findings are in /verif/known_findings.json; DESIGN.md §11 describes what was built.",
    }
    for pid in sorted(CLAIMED):
        cat, text, ref = CLAIMED[pid]
        m["checks"].append({
            "property_id": pid,
            "quick_cmd": "./bin/govc check --tier quick " + pid,
            "thorough_cmd": "./bin/govc check --tier thorough " + pid,
            "evidence_file": "/verif/evidence/%s.json" % pid,
            "engine": "govc",
            "level_claimed": {"category": cat, "text": text, "design_ref": "DESIGN.md " + ref},
            "level_note": "trusted: the govc VC generator, go/ssa, the SMT solvers, the assumed contracts of dependencies in /verif/spec/extern.gvc and the assume clauses in contracts_verif.go (each listed in the evidence file); partial correctness only",
            "technique": TECH,
        })
    json.dump(m, open("/verif/MANIFEST.json", "w"), indent=1)
    print("claimed:", sorted(CLAIMED), "not applicable:", sorted(NA))

main()
