#!/bin/bash
# usage: tryseed.sh <seed> <prop>... : applies the seeded patch to /repo, runs the checks, reverts
# evidence files are rewritten by every check run: keep the clean-tree evidence and put it back at the end
rm -rf /var/tmp/evidence.keep && cp -r /verif/evidence /var/tmp/evidence.keep
trap 'rm -rf /verif/evidence && cp -r /var/tmp/evidence.keep /verif/evidence && rm -rf /var/tmp/evidence.keep' EXIT
S=/verif/seeded/$1; shift
cd /repo && git diff --quiet || { echo "repo dirty"; exit 2; }
git apply $S/patch.diff || exit 2
cd /verif
for p in "$@"; do ./bin/govc check $p 2>&1 | grep -E '^VIOLATION|^govc:' | cut -c1-220; done
cd /repo && git apply -R $S/patch.diff && git diff --quiet && echo reverted
