#!/bin/bash
# Parallel variant of seedmatrix.sh: every seed gets its own scratch worktree of /repo's HEAD (under /var/tmp) and
# its own scratch copy of the /verif state that a check reads and writes (VERIF_DIR), so /repo and /verif/evidence
# are never touched. Usage: tools/seedmatrix_par.sh [-j N] [seed...]; prints one line per (seed, check).
J=3
if [ "$1" = "-j" ]; then J=$2; shift 2; fi
declare -A REL=(
 [C01-a]="C04 C06 C08" [C02-a]="C04 C06" [C03-a]="C07" [C04-a]="C04 C11" [C05-a]="C05 C04" [C06-a]="C06 C13"
 [C07-a]="C07" [C08-a]="C08 C04" [C09-a]="C07" [C10-a]="C07 C10" [C11-a]="C11 C04" [C12-a]="C12 C07"
 [C13-a]="C13" [C14-a]="C14" [C15-a]="C15" [C16-a]="C04 C11" [C17-a]="C17 C06" [C18-a]="C18" [C19-a]="C19 C04"
 [C20-a]="C20"
 [C04-b]="C04 C05" [C06-b]="C06 C13" [C08-b]="C08 C04" [C11-b]="C11 C04" [C12-b]="C07 C12" [C14-b]="C14"
 [C18-b]="C04 C08 C12 C18" [C20-b]="C20" [C07-c]="C07" [C13-b]="C13 C06" [C19-b]="C19 C04" [C15-b]="C15 C05" [C05-c]="C15 C05"
)
seeds="$@"
[ -z "$seeds" ] && seeds=$(ls /verif/seeded | sort)
one() {
  s=$1; rel=$2
  W=/var/tmp/sm-$s; V=/var/tmp/smv-$s
  git -C /repo worktree remove --force $W >/dev/null 2>&1; rm -rf $V
  git -C /repo worktree add --detach $W HEAD >/dev/null 2>&1 || { echo "$s: worktree failed"; return; }
  mkdir -p $V && cp -r /verif/spec /verif/replay /verif/known_findings.json /verif/sweep_claims.json /verif/properties.jsonl $V/ 2>/dev/null
  if ! git -C $W apply /verif/seeded/$s/patch.diff 2>/dev/null; then echo "$s: patch does not apply"; else
    for p in $rel; do
      out=$(cd $V && VERIF_REPO=$W VERIF_DIR=$V timeout 1500 /verif/bin/govc check --tier quick $p 2>&1)
      nv=$(echo "$out" | grep -c '^VIOLATION')
      first=$(echo "$out" | grep '^VIOLATION' | head -1 | sed 's/.*replay=[^ ]*replays\///' | cut -c1-170)
      if [ "$nv" -gt 0 ]; then echo "$s $p CAUGHT ($nv) $first"; else echo "$s $p missed  [$(echo "$out" | grep '^govc:' | tail -1 | cut -c1-120)]"; fi
    done
  fi
  git -C /repo worktree remove --force $W >/dev/null 2>&1; rm -rf $V
}
export -f one
for s in $seeds; do echo "$s|${REL[$s]}"; done | xargs -P $J -I{} bash -c 'IFS="|" read s rel <<< "{}"; one "$s" "$rel"'
git -C /repo worktree prune
