#!/bin/bash
# Applies every seeded change in /verif/seeded to /repo in turn, runs the checks that could notice it, reverts the
# change (git apply -R) and prints one line per (seed, check). Evidence files are overwritten by these runs: run
# tools/regress.sh on the clean tree afterwards, before committing.
# Usage: tools/seedmatrix.sh [seed...]
# evidence files are rewritten by every check run: keep the clean-tree evidence and put it back at the end
rm -rf /var/tmp/evidence.keep && cp -r /verif/evidence /var/tmp/evidence.keep
trap 'rm -rf /verif/evidence && cp -r /var/tmp/evidence.keep /verif/evidence && rm -rf /var/tmp/evidence.keep' EXIT
cd /repo && git diff --quiet || { echo "repo dirty"; exit 2; }
declare -A REL=(
 [C01-a]="C04 C06 C08" [C02-a]="C04 C06" [C03-a]="C07" [C04-a]="C04 C11" [C05-a]="C05 C04" [C06-a]="C06 C13"
 [C07-a]="C07" [C08-a]="C08 C04" [C09-a]="C07" [C10-a]="C07 C10" [C11-a]="C11 C04" [C12-a]="C12 C07"
 [C13-a]="C13" [C14-a]="C14" [C15-a]="C15" [C16-a]="C04 C11" [C17-a]="C17 C06" [C18-a]="C18" [C19-a]="C19 C04"
 [C20-a]="C20"
)
seeds="$@"
[ -z "$seeds" ] && seeds=$(ls /verif/seeded | sort)
for s in $seeds; do
  S=/verif/seeded/$s
  cd /repo && git apply $S/patch.diff 2>/dev/null || { echo "$s: patch does not apply"; continue; }
  cd /verif
  for p in ${REL[$s]}; do
    out=$(timeout 1500 ./bin/govc check --tier quick $p 2>&1)
    nv=$(echo "$out" | grep -c '^VIOLATION')
    first=$(echo "$out" | grep '^VIOLATION' | head -1 | sed 's/.*replay=\/verif\/replays\///' | cut -c1-150)
    if [ "$nv" -gt 0 ]; then echo "$s $p CAUGHT ($nv) $first"; else echo "$s $p missed"; fi
  done
  cd /repo && git apply -R $S/patch.diff && git diff --quiet || { echo "REVERT FAILED for $s"; exit 3; }
done
