#!/bin/bash
# Runs every claimed quick check on the current tree (sequentially) and prints one line per property.
# Usage: tools/regress.sh [props...]   (default: every check in MANIFEST.json)
cd /verif
props="$@"
if [ -z "$props" ]; then props=$(python3 -c "import json;print(' '.join(c['property_id'] for c in json.load(open('MANIFEST.json'))['checks']))"); fi
rc=0
for p in $props; do
  out=$(./bin/govc check --tier quick $p 2>&1); e=$?
  echo "$out" | grep -E '^(VIOLATION|KNOWN-FINDING|govc:)' | cut -c1-240
  [ $e -ne 0 ] && rc=1
done
exit $rc
